// dtcheck decides structural necessary conditions of properties C01–C20 of
// go-data-transfer from /repo's current source (see /verif/DESIGN.md).
package main

import (
	"encoding/json"
	"flag"
	"fmt"
	"os"
	"path/filepath"
	"regexp"
	"sort"
	"strconv"
	"strings"
	"time"

	"dtcheck/internal/core"
	"dtcheck/internal/rules"

	"golang.org/x/tools/go/ssa"
)

func main() {
	prop := flag.String("property", "", "property id (C01..C20)")
	tier := flag.String("tier", "quick", "quick|thorough")
	repo := flag.String("repo", "/repo", "repository directory")
	verif := flag.String("verif", "", "verif directory (default: parent of the binary's dir)")
	dump := flag.String("dump", "", "debug: calls|paths|fsm|funcs|ssa")
	fn := flag.String("func", "", "debug: function as rel:recv:name")
	match := flag.String("match", "", "debug: regexp filter on callee names / RETURN / STORE for -dump calls")
	mutantRun := flag.Bool("mutant-run", false, "internal: self-test subprocess (prints obligations, writes no evidence)")
	overlay := flag.String("overlay", "", "comma-separated repoRelFile=replacementFile pairs (in-memory variants for the self-test)")
	flag.Parse()
	t0 := time.Now()
	if *verif == "" {
		exe, _ := os.Executable()
		*verif = filepath.Dir(filepath.Dir(exe))
	}
	if t := os.Getenv("VERIF_TIER"); t != "" && *tier == "" {
		*tier = t
	}
	var seed int64
	if s := os.Getenv("VERIF_SEED"); s != "" {
		seed, _ = strconv.ParseInt(s, 10, 64)
	}
	var ov map[string][]byte
	if *overlay != "" {
		ov = map[string][]byte{}
		for _, kv := range strings.Split(*overlay, ",") {
			i := strings.IndexByte(kv, '=')
			if i < 0 {
				fatal("bad -overlay entry %q", kv)
			}
			b, err := os.ReadFile(kv[i+1:])
			if err != nil {
				fatal("overlay: %v", err)
			}
			ov[filepath.Join(*repo, kv[:i])] = b
		}
	}
	p, err := core.Load(*repo, ov, "")
	if err != nil {
		fmt.Printf("CHECKER-ERROR property=%s: cannot load %s: %v\n", *prop, *repo, err)
		os.Exit(2)
	}
	if *dump != "" {
		doDump(p, *dump, *fn, *match)
		return
	}
	r, ok := rules.Registry[*prop]
	if !ok {
		var ids []string
		for k := range rules.Registry {
			ids = append(ids, k)
		}
		sort.Strings(ids)
		fatal("unknown property %q; have %v", *prop, ids)
	}
	ctx := core.NewCtx(p, *prop, *tier)
	ctx.MutantRun = *mutantRun
	ctx.Stats["packages"] = len(p.Pkgs)
	ctx.Stats["production_functions"] = len(p.Prod)
	ctx.Stats["load_s"] = p.LoadS
	ctx.Stats["ssa_s"] = p.SSAS
	func() {
		defer func() {
			if e := recover(); e != nil {
				ctx.Stuck("panic", "checker", "", fmt.Sprintf("analyser panicked: %v", e))
				if os.Getenv("DTCHECK_DEBUG") != "" {
					panic(e)
				}
			}
		}()
		rules.CheckTrustedBase(ctx)
		r.Run(ctx)
		if *tier == "thorough" {
			rules.ArchReload(ctx, *repo)
			rules.Thorough(ctx, *repo, *verif)
		}
	}()
	code := ctx.Finish(*verif, time.Since(t0), seed, "other", r.Explanation)
	os.Exit(code)
}

func fatal(f string, a ...interface{}) {
	fmt.Fprintf(os.Stderr, "dtcheck: "+f+"\n", a...)
	os.Exit(2)
}

func doDump(p *core.Prog, what, fnSpec, match string) {
	var re *regexp.Regexp
	if match != "" {
		re = regexp.MustCompile(match)
	}
	show := func(s string) bool { return re == nil || re.MatchString(s) }
	var fns []*ssa.Function
	if fnSpec != "" {
		for _, one := range strings.Split(fnSpec, ",") {
			parts := strings.Split(one, ":")
			if len(parts) != 3 {
				fatal("-func wants rel:recv:name")
			}
			f := p.Func(parts[0], parts[1], parts[2])
			if f == nil {
				fatal("function %s not found", one)
			}
			fns = append(fns, f)
		}
	}
	switch what {
	case "funcs":
		for _, f := range p.Prod {
			fmt.Println(core.ShortFn(f), p.Pos(f.Pos()))
		}
	case "ssa":
		for _, f := range fns {
			f.WriteTo(os.Stdout)
		}
	case "calls":
		for _, f := range fns {
			var visit func(f *ssa.Function)
			visit = func(f *ssa.Function) {
				fmt.Println("==", core.ShortFn(f))
				d := p.D()
				for _, ci := range core.CallSites(f) {
					var args []string
					for _, a := range ci.Common().Args {
						args = append(args, d.Of(a))
					}
					if !show(p.CalleeName(ci.Common())) {
						continue
					}
					fmt.Printf("  %s b%d %s\n      args: %s\n      atoms: %s\n", p.InstrPos(ci), ci.Block().Index, p.CalleeName(ci.Common()),
						strings.Join(args, " | "), strings.Join(core.AtomStrings(p.AtomsAtInstr(ci)), "  "))
				}
				for _, b := range f.Blocks {
					for _, ins := range b.Instrs {
						switch x := ins.(type) {
						case *ssa.Return:
							if !show("RETURN") {
								continue
							}
							var rs []string
							for _, r := range x.Results {
								rs = append(rs, d.Of(r))
							}
							fmt.Printf("  %s b%d RETURN %s\n      atoms: %s\n", p.InstrPos(x), b.Index, strings.Join(rs, " | "), strings.Join(core.AtomStrings(p.AtomsAt(b)), "  "))
						case *ssa.Store:
							if !show("STORE") {
								continue
							}
							fmt.Printf("  %s b%d STORE %s := %s\n      atoms: %s\n", p.InstrPos(x), b.Index, d.Of(x.Addr), d.Of(x.Val), strings.Join(core.AtomStrings(p.AtomsAt(b)), "  "))
						}
					}
				}
				for _, a := range f.AnonFuncs {
					visit(a)
				}
			}
			visit(f)
		}
	case "paths":
		for _, f := range fns {
			paths, complete := p.Paths(f)
			fmt.Println("==", core.ShortFn(f), len(paths), "paths complete:", complete)
			for i, pt := range paths {
				var evs []string
				for _, e := range pt.Evs {
					evs = append(evs, e.Kind[:1]+":"+p.CalleeName(e.C))
				}
				var rets []string
				if pt.Ret != nil {
					for j := range pt.Ret.Results {
						rets = append(rets, pt.RetDesc(j))
					}
				}
				fmt.Printf(" #%d %s\n    atoms: %s\n    calls: %s\n    ret: %s\n", i, pt.End, strings.Join(atomList(pt.Atoms), "  "), strings.Join(evs, " ; "), strings.Join(rets, " | "))
			}
		}
	case "params":
		// reference program (frozen into internal/core/refparams.json): for every
		// production function its parameter names by position and the module
		// functions it calls. Regenerate only when the reference tree changes.
		type ent struct {
			Params  []string `json:"params"`
			Results int      `json:"results"`
			Callees []string `json:"callees"`
		}
		out := map[string]ent{}
		for _, f := range p.Prod {
			var e ent
			e.Results = f.Signature.Results().Len()
			for _, q := range f.Params {
				e.Params = append(e.Params, q.Name())
			}
			seen := map[string]bool{}
			for _, ci := range core.CallSites(f) {
				n := p.CalleeName(ci.Common())
				if !seen[n] && !strings.HasPrefix(n, "dyn:") {
					seen[n] = true
					e.Callees = append(e.Callees, n)
				}
			}
			sort.Strings(e.Callees)
			out[f.String()] = e
		}
		b, _ := json.MarshalIndent(out, "", " ")
		fmt.Println(string(b))
	case "fsm":
		rules.DumpFSM(p)
	default:
		fatal("unknown dump %q", what)
	}
}

func atomList(as []core.Atom) []string {
	var out []string
	for _, a := range as {
		out = append(out, a.String())
	}
	return out
}
