package rules

import (
	"fmt"
	"go/token"
	"go/types"
	"sort"
	"strings"

	"dtcheck/internal/core"

	"golang.org/x/tools/go/ssa"
)

// No-crash rules (DESIGN E10), nilness-style over SSA with dominance facts.

func isNilConst(v ssa.Value) bool { c, ok := v.(*ssa.Const); return ok && c.IsNil() }

func nillable(t types.Type) bool {
	switch t.Underlying().(type) {
	case *types.Interface, *types.Pointer:
		return true
	}
	return false
}

// nilFact: is v known (by dominance) to be nil / non-nil at block b?
func nilFact(p *core.Prog, v ssa.Value, b *ssa.BasicBlock) (known, isNil bool) {
	for _, f := range p.Facts(b.Parent())[b] {
		if bo, ok := f.Cond.(*ssa.BinOp); ok {
			if !((bo.X == v && isNilConst(bo.Y)) || (bo.Y == v && isNilConst(bo.X))) {
				continue
			}
			if bo.Op == token.NEQ {
				return true, !f.Pol
			}
			if bo.Op == token.EQL {
				return true, f.Pol
			}
		}
	}
	return false, false
}

func isGenerated(p *core.Prog, fn *ssa.Function) bool {
	return strings.HasSuffix(p.Fset.Position(fn.Pos()).Filename, "_cbor_gen.go")
}

type nilOnErr struct {
	mayNil map[*ssa.Function]map[int]bool // result k may be nil while the error result is non-nil
	deref  map[*ssa.Function]map[int]bool // parameter i is dereferenced without a non-nil fact
}

var nilOnErrCache = map[*core.Prog]*nilOnErr{}

func nilOnErrInfo(p *core.Prog) *nilOnErr {
	if x, ok := nilOnErrCache[p]; ok {
		return x
	}
	info := &nilOnErr{mayNil: map[*ssa.Function]map[int]bool{}, deref: map[*ssa.Function]map[int]bool{}}
	for _, fn := range p.Prod {
		if isGenerated(p, fn) {
			continue
		}
		res := fn.Signature.Results()
		if res.Len() < 2 || res.At(res.Len()-1).Type().String() != "error" {
			continue
		}
		for _, b := range fn.Blocks {
			ret, ok := b.Instrs[len(b.Instrs)-1].(*ssa.Return)
			if !ok || isNilConst(ret.Results[len(ret.Results)-1]) {
				continue
			}
			for k := 0; k < len(ret.Results)-1; k++ {
				if nillable(res.At(k).Type()) && isNilConst(ret.Results[k]) {
					if info.mayNil[fn] == nil {
						info.mayNil[fn] = map[int]bool{}
					}
					info.mayNil[fn][k] = true
				}
			}
		}
	}
	paramIndex := func(fn *ssa.Function, v ssa.Value) int {
		for i, q := range fn.Params {
			if q == v {
				return i
			}
		}
		return -1
	}
	changed := true
	for changed {
		changed = false
		for _, fn := range p.Prod {
			if isGenerated(p, fn) {
				continue
			}
			for _, b := range fn.Blocks {
				for _, ins := range b.Instrs {
					mark := func(v ssa.Value) {
						i := paramIndex(fn, v)
						if i < 0 || !nillable(v.Type()) {
							return
						}
						if known, isNil := nilFact(p, v, b); known && !isNil {
							return
						}
						if info.deref[fn] == nil {
							info.deref[fn] = map[int]bool{}
						}
						if !info.deref[fn][i] {
							info.deref[fn][i] = true
							changed = true
						}
					}
					if ci, ok := ins.(ssa.CallInstruction); ok {
						c := ci.Common()
						if c.IsInvoke() {
							mark(c.Value)
						}
						if sc := c.StaticCallee(); sc != nil {
							for j, a := range c.Args {
								if info.deref[sc][j] {
									mark(a)
								}
							}
						}
					}
				}
			}
		}
	}
	nilOnErrCache[p] = info
	return info
}

// noCrashNilOnError (E10a): a result that a module function returns as nil
// together with a non-nil error must not be invoked / passed to a function
// that dereferences it on a path that has not established err == nil (or the
// value != nil). Restricted to the named functions (all production functions
// of the listed packages when a name ends in "/*").
func noCrashNilOnError(r *R, rule string, scope ...string) {
	p := r.p
	info := nilOnErrInfo(p)
	fns := scopeFuncs(r, rule, scope)
	analysed := 0
	for _, fn := range fns {
		cands := 0
		var findings []string
		var sites []string
		for _, b := range fn.Blocks {
			for _, ins := range b.Instrs {
				ci, ok := ins.(ssa.CallInstruction)
				if !ok {
					continue
				}
				c := ci.Common()
				check := func(v ssa.Value, how string) {
					ex, ok := v.(*ssa.Extract)
					if !ok {
						return
					}
					call, ok := ex.Tuple.(*ssa.Call)
					if !ok {
						return
					}
					h := call.Common().StaticCallee()
					if h == nil || !info.mayNil[h][ex.Index] {
						return
					}
					cands++
					n := h.Signature.Results().Len()
					errKnownNil := false
					for _, f := range p.Facts(fn)[b] {
						if bo, ok := f.Cond.(*ssa.BinOp); ok {
							var e2 *ssa.Extract
							if x, ok := bo.X.(*ssa.Extract); ok && isNilConst(bo.Y) {
								e2 = x
							} else if x, ok := bo.Y.(*ssa.Extract); ok && isNilConst(bo.X) {
								e2 = x
							}
							if e2 != nil && e2.Tuple == ex.Tuple && e2.Index == n-1 {
								if (bo.Op == token.NEQ && !f.Pol) || (bo.Op == token.EQL && f.Pol) {
									errKnownNil = true
								}
							}
						}
					}
					if known, isNil := nilFact(p, v, b); known && !isNil {
						return
					}
					if !errKnownNil {
						findings = append(findings, fmt.Sprintf("result %d of %s (nil when it returns an error) is %s without first establishing err == nil or a non-nil value", ex.Index, core.ShortFn(h), how))
						sites = append(sites, p.InstrPos(ins))
					}
				}
				if c.IsInvoke() {
					check(c.Value, "invoked ("+c.Method.Name()+")")
				}
				if sc := c.StaticCallee(); sc != nil {
					for j, a := range c.Args {
						if info.deref[sc][j] {
							check(a, "passed to "+core.ShortFn(sc)+", which dereferences it")
						}
					}
				}
			}
		}
		if cands == 0 && len(findings) == 0 {
			continue
		}
		analysed++
		name := core.ShortFn(fn)
		if len(findings) == 0 {
			r.c.OK(rule, name, p.Pos(fn.Pos()), fmt.Sprintf("%d uses of nil-on-error results, all guarded", cands))
		} else {
			r.c.Bad(rule, name, sites[0], "possible nil dereference: "+strings.Join(findings, "; "))
		}
	}
	r.c.Stats[rule+"_functions_scanned"] = len(fns)
	r.c.Stats[rule+"_functions_with_candidates"] = analysed
}

func scopeFuncs(r *R, rule string, scope []string) []*ssa.Function {
	var out []*ssa.Function
	for _, s := range scope {
		if strings.HasSuffix(s, "/*") {
			rel := strings.TrimSuffix(s, "/*")
			n := 0
			for _, fn := range r.p.Prod {
				if isGenerated(r.p, fn) {
					continue
				}
				top := core.TopLevel(fn)
				if top.Pkg != nil && top.Pkg == r.p.SSAByRel[rel] {
					out = append(out, fn)
					n++
				}
			}
			if n == 0 {
				r.c.Stuck(rule, "scope:"+s, "", "no functions found in package "+rel)
			}
			continue
		}
		found := false
		for _, fn := range r.p.Prod {
			if core.ShortFn(fn) == s {
				out = append(out, fn)
				found = true
			}
		}
		if !found {
			r.c.Stuck(rule, "anchor:"+s, "", "anchor function no longer resolves")
		}
	}
	sort.Slice(out, func(i, j int) bool { return out[i].String() < out[j].String() })
	return out
}

// noCrashAssert (E10b): x.(T) without comma-ok on the first result of a
// (value, ok) lookup whose ok is not known true at that point.
func noCrashAssert(r *R, rule string, scope ...string) {
	p := r.p
	for _, fn := range scopeFuncs(r, rule, scope) {
		cands := 0
		var bad []string
		var site string
		for _, b := range fn.Blocks {
			for _, ins := range b.Instrs {
				x, ok := ins.(*ssa.TypeAssert)
				if !ok || x.CommaOk {
					continue
				}
				ex, ok := x.X.(*ssa.Extract)
				if !ok || ex.Index != 0 {
					continue
				}
				tup, ok := ex.Tuple.Type().(*types.Tuple)
				if !ok || tup.Len() != 2 || !types.Identical(tup.At(1).Type(), types.Typ[types.Bool]) {
					continue
				}
				cands++
				checked := false
				for _, f := range p.Facts(fn)[b] {
					if e2, ok := f.Cond.(*ssa.Extract); ok && e2.Tuple == ex.Tuple && e2.Index == 1 && f.Pol {
						checked = true
					}
				}
				if !checked {
					bad = append(bad, "type assertion to "+core.TypeShort(x.AssertedType)+" on the result of a lookup whose ok flag is not checked: panics when the entry is missing")
					site = p.InstrPos(x)
				}
			}
		}
		if cands == 0 {
			continue
		}
		name := core.ShortFn(fn)
		if len(bad) == 0 {
			r.c.OK(rule, name, p.Pos(fn.Pos()), fmt.Sprintf("%d lookup-then-assert sites, ok checked", cands))
		} else {
			r.c.Bad(rule, name, site, strings.Join(bad, "; "))
		}
	}
}

func knownNonNil(p *core.Prog, v ssa.Value, b *ssa.BasicBlock) bool {
	known, isNil := nilFact(p, v, b)
	return known && !isNil
}

// noCrashNilInvoke (E10c): method call on an interface variable that is nil
// on some incoming edge (e.g. a switch without default that leaves it unset).
func noCrashNilInvoke(r *R, rule string, scope ...string) {
	p := r.p
	for _, fn := range scopeFuncs(r, rule, scope) {
		cands := 0
		var bad []string
		var site string
		for _, b := range fn.Blocks {
			for _, ins := range b.Instrs {
				ci, ok := ins.(ssa.CallInstruction)
				if !ok || !ci.Common().IsInvoke() {
					continue
				}
				phi, ok := ci.Common().Value.(*ssa.Phi)
				if !ok {
					continue
				}
				cands++
				for _, e := range phi.Edges {
					if isNilConst(e) && !knownNonNil(p, phi, b) {
						bad = append(bad, "method "+ci.Common().Method.Name()+" called on "+phi.Comment+", which is nil on some path reaching this call")
						site = p.InstrPos(ins)
						break
					}
				}
			}
		}
		if cands == 0 {
			continue
		}
		name := core.ShortFn(fn)
		if len(bad) == 0 {
			r.c.OK(rule, name, p.Pos(fn.Pos()), fmt.Sprintf("%d invokes on merged interface values, none nil on any edge", cands))
		} else {
			r.c.Bad(rule, name, site, strings.Join(bad, "; "))
		}
	}
}

// noCrashNilChan (E10d): a receive (plain or in a select) from a channel
// value that is the nil constant on some incoming edge blocks forever (a
// select is only rescued by its other cases).
func noCrashNilChan(r *R, rule string, scope ...string) {
	p := r.p
	for _, fn := range scopeFuncs(r, rule, scope) {
		cands := 0
		var bad []string
		var site string
		chk := func(ch ssa.Value, b *ssa.BasicBlock, ins ssa.Instruction, what string) {
			cands++
			if isNilConst(ch) {
				bad = append(bad, what+" on a nil channel")
				site = p.InstrPos(ins)
				return
			}
			if phi, ok := ch.(*ssa.Phi); ok {
				for _, e := range phi.Edges {
					if isNilConst(e) && !knownNonNil(p, phi, b) {
						bad = append(bad, what+" on channel "+phi.Comment+", which is nil on some path reaching it (blocks until another case fires, forever if none does)")
						site = p.InstrPos(ins)
						return
					}
				}
			}
		}
		for _, b := range fn.Blocks {
			for _, ins := range b.Instrs {
				switch x := ins.(type) {
				case *ssa.Select:
					for _, st := range x.States {
						if st.Dir == types.RecvOnly {
							chk(st.Chan, b, x, "select receive")
						}
					}
				case *ssa.UnOp:
					if x.Op == token.ARROW {
						chk(x.X, b, x, "receive")
					}
				}
			}
		}
		if cands == 0 {
			continue
		}
		name := core.ShortFn(fn)
		if len(bad) == 0 {
			r.c.OK(rule, name, p.Pos(fn.Pos()), fmt.Sprintf("%d channel receives, none on a possibly-nil channel", cands))
		} else {
			r.c.Bad(rule, name, site, strings.Join(bad, "; "))
		}
	}
}
