package rules

import (
	"fmt"
	"go/types"
	"strings"

	"dtcheck/internal/core"

	"golang.org/x/tools/go/ssa"
)

func init() {
	register("C17", "Decides the in-repository fan-out only (the queue that gives exactly-once, in-order delivery with consistent snapshots is go-statemachine's notifier and go-pubsub's Publish — dependencies, not decided): the FSM notifier is Channels.dispatch, which calls the manager's notifier exactly once per applied event with the event code/message and the state it was given; manager.notifier publishes exactly once with both; the pubsub dispatcher calls the subscriber exactly once with that event and state; only manager.notifier publishes channel events and SubscribeToEvents hands back the pubsub's unsubscribe function; the per-transfer table is keyed by the full channel id, delivers a channel's events to that channel's subscribers only, is added to only by Subscribe and deleted from only under IsChannelTerminated of the event's own state; a transfer's subscriber is registered before its Open event is fired.",
		func(c *core.Ctx) {
			r := newR(c)
			c.Assumption("go-statemachine calls Parameters.Notifier once per applied event, in order, with the resulting state; go-pubsub Publish calls every subscriber once (DESIGN §2)")
			c17Fanout(r)
			c17PerTransfer(r)
		})
}

func c17Fanout(r *R) {
	// channels.New wires dispatch (C02.1 checks the literal); dispatch → notifier
	dp := r.fn("C17.1", "channels", "Channels", "dispatch")
	if dp != nil {
		for i, pt := range r.pathsOf("C17.1", dp) {
			if pt.End != "return" {
				continue
			}
			var calls []core.Ev
			for _, ev := range pt.Evs {
				if r.p.CalleeName(ev.C) == "dyn:c.notifier" {
					calls = append(calls, ev)
				}
			}
			ok := len(calls) == 1
			if ok {
				a0 := pt.ArgDesc(calls[0], 0)
				ok = strings.Contains(a0, "Code:eventName.(datatransfer.EventCode)?#0") && strings.Contains(a0, "Message:channel.(channels/internal.ChannelState)?#0.Message") &&
					pt.ArgDeep(calls[0], 1) == "channels.channelState{ic:channel.(channels/internal.ChannelState)?#0}"
			}
			r.c.Check(ok, "C17.1", fmt.Sprintf("dispatch/path#%d", i+1), r.p.Pos(dp.Pos()), "notifier called once with the event and the resulting state", "dispatch does not call the notifier exactly once with (event code, state message) and the state it was given: "+pt.Describe())
		}
	}
	nf := r.fn("C17.1", "impl", "manager", "notifier")
	if nf != nil {
		for i, pt := range r.pathsOf("C17.1", nf) {
			idx := pt.Index(r.p.Is("(*github.com/hannahhoward/go-pubsub.PubSub).Publish"))
			ok := pt.Count(r.p.Is("(*github.com/hannahhoward/go-pubsub.PubSub).Publish")) == 1 && pt.ArgDesc(pt.Evs[idx], -1) == "m.pubSub" && pt.ArgDesc(pt.Evs[idx], 0) == "impl.internalEvent{evt:evt,state:chst}"
			r.c.Check(ok, "C17.1", fmt.Sprintf("notifier/path#%d", i+1), r.p.Pos(nf.Pos()), "published once with event and state", "manager.notifier does not publish exactly once with the event and the state: "+pt.Describe())
		}
	}
	ds := r.fn("C17.1", "impl", "", "dispatcher")
	if ds != nil {
		n := 0
		for _, pt := range r.pathsOf("C17.1", ds) {
			if pt.End != "return" {
				continue
			}
			var calls []core.Ev
			for _, ev := range pt.Evs {
				if strings.HasPrefix(r.p.CalleeName(ev.C), "dyn:subscriberFn.(datatransfer.Subscriber)") {
					calls = append(calls, ev)
				}
			}
			if pt.RetDesc(0) == "nil" {
				n++
				ok := len(calls) == 1 && pt.ArgDesc(calls[0], 0) == "evt.(impl.internalEvent)?#0.evt" && pt.ArgDesc(calls[0], 1) == "evt.(impl.internalEvent)?#0.state"
				r.c.Check(ok, "C17.1", fmt.Sprintf("dispatcher/deliver#%d", n), r.p.Pos(ds.Pos()), "subscriber called once with the published event and state", "the pubsub dispatcher does not call the subscriber exactly once with the published event and state: "+pt.Describe())
			} else {
				r.c.Check(len(calls) == 0, "C17.1", fmt.Sprintf("dispatcher/reject#%d", len(r.c.Obs)), r.p.Pos(ds.Pos()), "type mismatch: not delivered", "subscriber called on an error path")
			}
		}
		r.c.Floor("C17.1", n, 1, "delivering paths of dispatcher")
	}
	// C17.2: who publishes / how to unsubscribe
	n := 0
	for _, fn := range r.p.Prod {
		for _, ci := range core.CallSites(fn) {
			if r.p.CalleeName(ci.Common()) == "(*github.com/hannahhoward/go-pubsub.PubSub).Publish" && strings.HasSuffix(r.d.Of(ci.Common().Args[0]), ".pubSub") {
				n++
				r.c.Check(core.ShortFn(fn) == "(*impl.manager).notifier", "C17.2", "publisher:"+core.ShortFn(fn), r.p.InstrPos(ci), "events published by manager.notifier only", "channel events are also published from "+core.ShortFn(fn)+" (subscribers see events that were not applied, or see them twice)")
			}
		}
	}
	r.c.Floor("C17.2", n, 1, "publishers of channel events")
	se := r.fn("C17.2", "impl", "manager", "SubscribeToEvents")
	if se != nil {
		ps, _ := r.p.Paths(se)
		r.c.Check(len(ps) == 1 && ps[0].RetDesc(0) == "m.pubSub.Subscribe(subscriber)", "C17.2", "SubscribeToEvents", r.p.Pos(se.Pos()), "returns the pubsub's unsubscribe for this subscriber", "SubscribeToEvents does not return the unsubscribe function of the subscription it makes")
	}
	// the manager's notifier is what channels.New receives
	nd := r.fn("C17.2", "impl", "", "NewDataTransfer")
	if nd != nil {
		if s := r.one("C17.2", nd, "channels.New"); s != nil {
			got := r.dOf(s.(ssa.Instruction)).Of(s.Common().Args[1])
			r.c.Check(strings.HasSuffix(got, ".notifier$bound"), "C17.2", "channels.New/notifier", r.p.InstrPos(s), "channels notify through manager.notifier", "channels.New is given "+got+" as notifier")
		}
		ps := r.sites(nd, false, "github.com/hannahhoward/go-pubsub.New")
		okD := false
		for _, s := range ps {
			if r.dOf(s.(ssa.Instruction)).Of(s.Common().Args[0]) == "func:impl.dispatcher" {
				okD = true
			}
		}
		r.c.Check(okD, "C17.2", "pubsub/dispatcher", r.p.Pos(nd.Pos()), "event pubsub uses impl.dispatcher", "the event pubsub is not created with impl.dispatcher")
	}
}

func c17PerTransfer(r *R) {
	// key type of the table
	pk := r.p.ByRel["channelsubscriptions"]
	if pk != nil {
		if tn, ok := pk.Types.Scope().Lookup("ChannelSubscriptions").(*types.TypeName); ok {
			st := tn.Type().Underlying().(*types.Struct)
			for i := 0; i < st.NumFields(); i++ {
				if st.Field(i).Name() == "subscriptions" {
					mt, _ := st.Field(i).Type().Underlying().(*types.Map)
					r.c.Check(mt != nil && core.TypeShort(mt.Key()) == "datatransfer.ChannelID", "C17.3", "table-key-type", r.p.Pos(st.Field(i).Pos()), "keyed by the full channel id", "the per-transfer subscriber table is not keyed by the full ChannelID: transfers that share part of their id see each other's events")
				}
			}
		}
	}
	sub := r.fn("C17.3", "channelsubscriptions", "ChannelSubscriptions", "subscriber")
	if sub != nil {
		// per path, helpers introduced later walked through in subscriber's terms
		nCall, nDel := 0, 0
		okD, okK, okG := "", "", ""
		var siteD, siteK ssa.Instruction
		for _, pt := range r.pathsOf("C17.3", sub) {
			for _, ev := range pt.Evs {
				name := "dyn:" + pt.Desc(ev.C.Value)
				if _, isB := ev.C.Value.(*ssa.Builtin); !isB && !ev.C.IsInvoke() && ev.C.StaticCallee() == nil && strings.HasPrefix(name, "dyn:cs.subscriptions[") {
					nCall++
					siteD = ev.Instr
					if !(strings.HasPrefix(name, "dyn:cs.subscriptions[state.ChannelID()][") && pt.ArgDesc(ev, 0) == "evt" && pt.ArgDesc(ev, 1) == "state") && okD == "" {
						okD = "per-transfer delivery uses " + name + " with (" + pt.ArgDesc(ev, 0) + ", " + pt.ArgDesc(ev, 1) + ")"
					}
				}
				if bi, ok := ev.C.Value.(*ssa.Builtin); ok && bi.Name() == "delete" {
					nDel++
					siteK = ev.Instr
					if !(pt.ArgDesc(ev, 0) == "cs.subscriptions" && pt.ArgDesc(ev, 1) == "state.ChannelID()") && okK == "" {
						okK = "the subscriber table entry released is " + pt.ArgDesc(ev, 1)
					}
					if !pt.HasBefore(ev.Instr, "+channels.IsChannelTerminated(state.Status())") && okG == "" {
						okG = "per-transfer subscribers are released although the channel has not terminated: " + pt.Describe()
					}
				}
			}
		}
		if siteD != nil {
			r.c.Check(okD == "", "C17.3", "subscriber/deliver", r.p.InstrPos(siteD), "the event's own channel's subscribers get (evt, state)", okD)
		}
		if siteK != nil {
			r.c.Check(okK == "", "C17.3", "subscriber/release-key", r.p.InstrPos(siteK), "releases the event's own channel", okK)
			r.c.Check(okG == "", "C17.3", "subscriber/release-guard", r.p.InstrPos(siteK), "released only once the channel terminated", okG)
		}
		r.c.Floor("C17.3", nCall, 1, "subscriber invocations")
		r.c.Floor("C17.3", nDel, 1, "releases of per-transfer subscribers")
	}
	// who mutates the table
	for _, fn := range r.p.Prod {
		if constructorFns[core.ShortFn(core.TopLevel(fn))] {
			continue
		}
		for _, b := range fn.Blocks {
			for _, ins := range b.Instrs {
				switch x := ins.(type) {
				case *ssa.MapUpdate:
					if r.d.Of(x.Map) == "cs.subscriptions" || strings.HasSuffix(r.d.Of(x.Map), ".subscriptions") && strings.Contains(core.TypeShort(x.Map.Type()), "datatransfer.Subscriber") {
						r.c.Check(core.ShortFn(fn) == "(*channelsubscriptions.ChannelSubscriptions).Subscribe", "C17.3", "table-writer:"+core.ShortFn(fn), r.p.InstrPos(x), "added to by Subscribe only", core.ShortFn(fn)+" writes the per-transfer subscriber table")
						if core.ShortFn(fn) == "(*channelsubscriptions.ChannelSubscriptions).Subscribe" {
							v := r.d.Of(x.Value)
							r.c.Check(r.d.Of(x.Key) == "chid" && strings.HasPrefix(v, "dyn:append(cs.subscriptions[chid],"), "C17.3", "Subscribe/append", r.p.InstrPos(x), "appends the callback under the channel id", "Subscribe stores "+v+" under "+r.d.Of(x.Key))
						}
					}
				case *ssa.Call:
					if bi, ok := x.Common().Value.(*ssa.Builtin); ok && bi.Name() == "delete" && strings.HasSuffix(r.d.Of(x.Common().Args[0]), ".subscriptions") && strings.Contains(core.TypeShort(x.Common().Args[0].Type()), "datatransfer.Subscriber") {
						al := map[string]bool{"(*channelsubscriptions.ChannelSubscriptions).subscriber": true}
						r.c.Check(al[core.ShortFn(fn)] || r.newHelperOfAllowed(core.ShortFn(fn), al, 3) != "", "C17.3", "table-releaser:"+core.ShortFn(fn), r.p.InstrPos(x), "released by the termination rule only", core.ShortFn(fn)+" removes per-transfer subscribers outside the termination rule: a subscriber misses events applied before the channel terminated")
					}
				}
			}
		}
	}
	// the channel-subscriptions fan-in is itself a global subscriber
	ncs := r.fn("C17.3", "channelsubscriptions", "", "NewChannelSubscriptions")
	if s := r.one("C17.3", ncs, "(channelsubscriptions.SubscriptionAPI).SubscribeToEvents"); s != nil && sub != nil {
		got := r.dOf(s.(ssa.Instruction)).Of(s.Common().Args[0])
		r.c.Check(strings.HasSuffix(got, ".subscriber$bound"), "C17.3", "fan-in", r.p.InstrPos(s), "subscribed to all events", "NewChannelSubscriptions subscribes "+got)
	}
	// registered before Open
	for _, name := range []string{"OpenPushDataChannel", "OpenPullDataChannel"} {
		fn := r.fn("C17.3", "impl", "manager", name)
		if fn == nil {
			continue
		}
		n := 0
		for _, pt := range r.pathsOf("C17.3", fn) {
			io := pt.Index(r.p.Is("(*channels.Channels).Open"))
			if io < 0 {
				continue
			}
			is := pt.Index(r.p.Is("(*channelsubscriptions.ChannelSubscriptions).Subscribe"))
			cb := false
			for _, a := range pt.Atoms {
				if !a.Pol && strings.HasSuffix(a.S, ".EventsCb()==nil") {
					cb = true
				}
			}
			if !cb {
				continue
			}
			n++
			ok := is >= 0 && is < io && pt.ArgDesc(pt.Evs[is], 0) == pt.ArgDesc(pt.Evs[io], 0)
			if n <= 3 || !ok {
				r.c.Check(ok, "C17.3", fmt.Sprintf("%s/subscribe-before-open#%d", name, n), r.p.Pos(fn.Pos()), "subscriber registered for the channel before Open is fired", "a transfer's subscriber is registered after (or not before) the Open event: it misses events")
			}
		}
		r.c.Floor("C17.3", n, 1, "paths with a subscriber in "+name)
	}
}
