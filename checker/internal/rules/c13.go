package rules

import (
	"fmt"
	"go/types"
	"strings"

	"dtcheck/internal/core"

	"golang.org/x/tools/go/ssa"
)

var pausedTrio = []string{"ResponderPaused", "InitiatorPaused", "BothPaused"}

// c13StatusMapping (C13.2, shared with C02): on every path of
// MigrateChannelState2To3 the new Status is Ongoing exactly when the old one
// was established to be one of the three deprecated paused statuses, identity
// otherwise, and the pause flags are the stated disjunctions.
func c13StatusMapping(r *R, rule string) {
	fn := r.fn(rule, "channels/internal/migrations", "", "MigrateChannelState2To3")
	if fn == nil {
		return
	}
	// the returned record
	var rec *ssa.Alloc
	for _, b := range fn.Blocks {
		for _, ins := range b.Instrs {
			if a, ok := ins.(*ssa.Alloc); ok && a.Heap && core.TypeShort(a.Type()) == "*channels/internal.ChannelState" {
				if rec != nil {
					r.c.Stuck(rule, "record", r.p.Pos(fn.Pos()), "more than one ChannelState allocated in the migration")
					return
				}
				rec = a
			}
		}
	}
	if rec == nil {
		r.c.Stuck(rule, "record", r.p.Pos(fn.Pos()), "no ChannelState literal found in the migration")
		return
	}
	stores := map[string]*ssa.Store{}
	for _, ref := range *rec.Referrers() {
		if fa, ok := ref.(*ssa.FieldAddr); ok {
			_, name := core.FieldOwner(fa)
			for _, rr := range *fa.Referrers() {
				if st, ok := rr.(*ssa.Store); ok && st.Addr == fa {
					stores[name] = st
				}
			}
		}
	}
	old := "oldChannelState.Status"
	n := 0
	for _, pt := range r.pathsOf(rule, fn) {
		if pt.End != "return" {
			continue
		}
		n++
		rawPos := func(s string) bool { return pt.Has("+" + s + "==" + old) }
		// tri-state knowledge about "old status == s": distinct constants exclude each other
		state := func(s string) string {
			if rawPos(s) {
				return "T"
			}
			if pt.Has("-" + s + "==" + old) {
				return "F"
			}
			for _, a := range pt.Atoms {
				if a.Pol && len(a.S) > len(old)+2 && a.S[len(a.S)-len(old)-2:] == "=="+old && a.S != s+"=="+old {
					return "F" // equal to a different constant
				}
			}
			return "?" + s
		}
		or := func(a, b string) string {
			switch {
			case a == "T" || b == "T":
				return "T"
			case a == "F":
				return b
			case b == "F":
				return a
			}
			return a + "|" + b
		}
		key := fmt.Sprintf("path#%d", n)
		st := stores["Status"]
		if st == nil {
			r.c.Bad(rule, key+"/Status", r.p.Pos(fn.Pos()), "the migrated record's Status is never set")
			continue
		}
		got := pt.Desc(st.Val)
		member := or(or(state("ResponderPaused"), state("InitiatorPaused")), state("BothPaused"))
		switch got {
		case "Ongoing":
			r.c.Check(member == "T", rule, key+"/Status", r.p.InstrPos(st), "Ongoing only for a deprecated paused status", "a status that was not established to be one of the deprecated paused statuses is rewritten to Ongoing: "+pt.Describe())
		case old:
			r.c.Check(member == "F", rule, key+"/Status", r.p.InstrPos(st), "status kept when not a paused status", "the old status is kept although it may be a deprecated paused status: "+pt.Describe())
		default:
			r.c.Bad(rule, key+"/Status", r.p.InstrPos(st), "migrated Status is "+got+", neither Ongoing nor the old status")
		}
		for _, flag := range []string{"ResponderPaused", "InitiatorPaused"} {
			fs := stores[flag]
			if fs == nil {
				r.c.Bad(rule, key+"/"+flag, r.p.Pos(fn.Pos()), "the migrated record's "+flag+" flag is never set")
				continue
			}
			want := or(state(flag), state("BothPaused"))
			gv := pt.Desc(fs.Val)
			val := ""
			switch gv {
			case "true":
				val = "T"
			case "false":
				val = "F"
			default:
				at := pt.D.NormAtom(fs.Val, true)
				for _, s := range pausedTrio {
					if at.S == s+"=="+old {
						val = state(s)
						if !at.Pol {
							switch val {
							case "T":
								val = "F"
							case "F":
								val = "T"
							default:
								val = "!" + val
							}
						}
					}
				}
			}
			if val == "" {
				r.c.Bad(rule, key+"/"+flag, r.p.InstrPos(fs), flag+" is set to "+gv+", which is not a function of the old status")
				continue
			}
			r.c.Check(val == want, rule, key+"/"+flag, r.p.InstrPos(fs), flag+" = (old status is "+flag+" or BothPaused)", fmt.Sprintf("%s is %s where the old status requires %s on %s", flag, val, want, pt.Describe()))
		}
	}
	r.c.Floor(rule, n, 4, "paths through MigrateChannelState2To3")
}

func init() {
	register("C13", "Decides the structure of the v2→v3 migration: every field of the v3 record is set in the returned value and every field shared with the v2 record receives old.<same field> except Status and the two pause flags, which follow the stated status mapping on every path (value flow + path enumeration over the migration function); the generated codec of the v2 record agrees with its struct; channels.New builds the state machine group through the versioned-FSM constructor with target version \"3\" and the migration list from GetChannelStateMigrations (no-op to \"2\", 2→3), every Channels method reaches state only through that gated group, Channels.Start is the migrate function; manager.Start publishes readiness exactly once with the migration outcome. Not decided: decoding of arbitrary v2 byte strings; go-ds-versioning's readiness gate itself.",
		func(c *core.Ctx) {
			r := newR(c)
			c.Assumption("go-ds-versioning: every fsm.Group method of the migrated FSM checks ReadyError() first and migration runs once (DESIGN §2)")
			c13Copy(r)
			c13StatusMapping(r, "C13.2")
			codecAgreement(r, "C13.3", "channels/internal/migrations", "ChannelStateV2")
			c13Versioned(r)
			c13Ready(r)
			c13NilStages(r)
		})
}

// C13.1: field-by-field copy.
func c13Copy(r *R) {
	fn := r.fn("C13.1", "channels/internal/migrations", "", "MigrateChannelState2To3")
	if fn == nil {
		return
	}
	newT, _ := r.p.ByRel["channels/internal"].Types.Scope().Lookup("ChannelState").(*types.TypeName)
	oldT, _ := r.p.ByRel["channels/internal/migrations"].Types.Scope().Lookup("ChannelStateV2").(*types.TypeName)
	if newT == nil || oldT == nil {
		r.c.Stuck("C13.1", "types", "", "record types not found")
		return
	}
	ns, os := newT.Type().Underlying().(*types.Struct), oldT.Type().Underlying().(*types.Struct)
	oldFields := map[string]bool{}
	for i := 0; i < os.NumFields(); i++ {
		oldFields[os.Field(i).Name()] = true
	}
	var rec *ssa.Alloc
	for _, b := range fn.Blocks {
		for _, ins := range b.Instrs {
			if a, ok := ins.(*ssa.Alloc); ok && a.Heap && core.TypeShort(a.Type()) == "*channels/internal.ChannelState" {
				rec = a
			}
		}
	}
	if rec == nil {
		r.c.Stuck("C13.1", "record", r.p.Pos(fn.Pos()), "no ChannelState literal in the migration")
		return
	}
	stores := litStores(rec)
	special := map[string]bool{"Status": true, "InitiatorPaused": true, "ResponderPaused": true}
	for i := 0; i < ns.NumFields(); i++ {
		f := ns.Field(i).Name()
		sts := stores[f]
		if len(sts) != 1 {
			r.c.Bad("C13.1", "field:"+f, r.p.Pos(fn.Pos()), fmt.Sprintf("field %s of the migrated record is set %d times (expected once): the value stored by the previous schema is dropped", f, len(sts)))
			continue
		}
		if special[f] {
			r.c.OK("C13.1", "field:"+f, r.p.InstrPos(sts[0]), "set (value decided by C13.2)")
			continue
		}
		got := r.d.Of(sts[0].Val)
		if oldFields[f] {
			r.c.Check(got == "oldChannelState."+f, "C13.1", "field:"+f, r.p.InstrPos(sts[0]), "copied from the old record's "+f, fmt.Sprintf("migrated %s is %s instead of oldChannelState.%s", f, got, f))
		} else {
			r.c.Bad("C13.1", "field:"+f, r.p.InstrPos(sts[0]), "field "+f+" has no counterpart in the v2 record and no rule says how to fill it")
		}
	}
	// returned value is that record, error nil
	for i, pt := range r.pathsOf("C13.1", fn) {
		if pt.End == "return" {
			r.c.Check(retAlloc(pt, 0) == rec && pt.RetDesc(1) == "nil", "C13.1", fmt.Sprintf("returns-record#%d", i+1), r.p.Pos(fn.Pos()), "returns the migrated record", "a path does not return the migrated record")
		}
	}
	// the no-op migration really is one
	if no := r.fn("C13.1", "channels/internal/migrations", "", "NoOpChannelState0To2"); no != nil {
		ps, _ := r.p.Paths(no)
		r.c.Check(len(ps) == 1 && ps[0].RetDesc(0) == "oldChannelState" && ps[0].RetDesc(1) == "nil", "C13.1", "noop-0-to-2", r.p.Pos(no.Pos()), "identity", "NoOpChannelState0To2 is not the identity")
	}
}

func c13Versioned(r *R) {
	nw := r.fn("C13.4", "channels", "", "New")
	if nw != nil {
		site := r.one("C13.4", nw, "github.com/filecoin-project/go-ds-versioning/pkg/fsm.NewVersionedFSM")
		gm := r.one("C13.4", nw, "channels/internal/migrations.GetChannelStateMigrations")
		if site != nil && gm != nil {
			r.argIs("C13.4", site, 0, "ds", "the datastore")
			r.argIs("C13.4", site, 2, r.v(gm)+"#0", "the migration list")
			r.argIs("C13.4", site, 3, `"3"`, "the target schema version")
			r.guarded("C13.4", site, "migrations-built", "+"+r.v(gm)+"#1==nil")
			// results stored to the two fields
			okG, okM := false, false
			for _, b := range nw.Blocks {
				for _, ins := range b.Instrs {
					if st, ok := ins.(*ssa.Store); ok {
						if fa, ok := st.Addr.(*ssa.FieldAddr); ok {
							if _, fld := core.FieldOwner(fa); fld == "stateMachines" && r.d.Of(st.Val) == r.v(site)+"#0" {
								okG = true
							} else if fld == "migrateStateMachines" && r.d.Of(st.Val) == r.v(site)+"#1" {
								okM = true
							}
						}
					}
				}
			}
			r.c.Check(okG && okM, "C13.4", "group-and-migrate-stored", r.p.InstrPos(site), "gated group and migrate function kept", "channels.New does not keep the versioned FSM's group and migrate function")
		}
	}
	// migration list
	gl := r.fn("C13.4", "channels/internal/migrations", "", "GetChannelStateMigrations")
	if gl != nil {
		var descs []string
		for _, s := range r.sites(gl, false, "github.com/filecoin-project/go-ds-versioning/pkg/versioned.NewVersionedBuilder") {
			descs = append(descs, r.dOf(s.(ssa.Instruction)).Of(s.Common().Args[0])+"→"+r.dOf(s.(ssa.Instruction)).Of(s.Common().Args[1]))
		}
		want := []string{"func:channels/internal/migrations.NoOpChannelState0To2→\"2\"", "func:channels/internal/migrations.MigrateChannelState2To3→\"3\""}
		r.c.Check(sameSet(descs, want), "C13.4", "migration-list", r.p.Pos(gl.Pos()), "no-op→2, 2→3", "migration builders are {"+join(descs)+"}")
		ov := r.sites(gl, false, "(github.com/filecoin-project/go-ds-versioning/pkg/versioned.Builder).OldVersion")
		ok := len(ov) == 1 && r.d.Of(ov[0].Common().Args[0]) == `"2"`
		r.c.Check(ok, "C13.4", "migration-2to3-oldversion", r.p.Pos(gl.Pos()), "2→3 declared with OldVersion(\"2\")", "the 2→3 migration is not declared with OldVersion(\"2\")")
	}
	// Channels.Start is the migrate function
	st := r.fn("C13.4", "channels", "Channels", "Start")
	if st != nil {
		ps, _ := r.p.Paths(st)
		r.c.Check(len(ps) == 1 && ps[0].RetDesc(0) == "dyn:c.migrateStateMachines(_)", "C13.4", "Channels.Start", r.p.Pos(st.Pos()), "runs the migrate function", "Channels.Start does not return the result of the migrate function")
	}
	// every access to durable state goes through c.stateMachines (the gated group)
	n := 0
	for _, fn := range r.p.Prod {
		top := core.TopLevel(fn)
		if top.Pkg != r.p.SSAByRel["channels"] {
			continue
		}
		for _, ci := range core.CallSites(fn) {
			name := r.p.CalleeName(ci.Common())
			if !strings.HasPrefix(name, "(github.com/filecoin-project/go-statemachine/fsm.Group).") {
				continue
			}
			n++
			recv := r.d.Of(ci.Common().Value)
			r.c.Check(recv == "c.stateMachines", "C13.4", "gated:"+r.siteKey(ci), r.p.InstrPos(ci), "through the readiness-gated group", "state accessed through "+recv+" instead of the versioned (readiness-gated) group")
		}
	}
	r.c.Floor("C13.4", n, 8, "state machine group calls in package channels")
	// nothing else constructs a state machine group
	for _, fn := range r.p.Prod {
		for _, ci := range core.CallSites(fn) {
			name := r.p.CalleeName(ci.Common())
			if name == "github.com/filecoin-project/go-statemachine/fsm.New" || name == "github.com/filecoin-project/go-statemachine.New" {
				r.c.Bad("C13.4", "ungated-group:"+core.ShortFn(fn), r.p.InstrPos(ci), "a state machine group is constructed directly (not through the versioned FSM): its operations are not gated on migration")
			}
		}
	}
}

func c13Ready(r *R) {
	// the goroutine manager.Start launches (a closure, or a method introduced for it)
	var cl *ssa.Function
	if start := r.fn("C13.5", "impl", "manager", "Start"); start != nil {
		for _, ci := range core.CallSites(start) {
			g, isGo := ci.(*ssa.Go)
			if !isGo {
				continue
			}
			var body *ssa.Function
			if mc, ok := g.Call.Value.(*ssa.MakeClosure); ok {
				body, _ = mc.Fn.(*ssa.Function)
			} else if sc := g.Call.StaticCallee(); sc != nil && r.p.InProd(core.Unwrap(sc)) {
				body = core.Unwrap(sc)
			}
			if body != nil && len(r.p.CallsTo(body, false, "(*channels.Channels).Start")) > 0 {
				cl = body
			}
		}
	}
	if cl == nil {
		r.c.Stuck("C13.5", "anchor:impl.manager.Start→goroutine", "", "the goroutine in which manager.Start runs the migration no longer resolves")
		return
	}
	st := r.one("C13.5", cl, "(*channels.Channels).Start")
	if st == nil {
		return
	}
	pub := r.p.Is("(*github.com/hannahhoward/go-pubsub.PubSub).Publish")
	for i, pt := range r.pathsOf("C13.5", cl) {
		n := 0
		ok := true
		for _, ev := range pt.Evs {
			if pub(ev) && pt.ArgDesc(ev, -1) == "m.readySub" {
				n++
				if pt.ArgDesc(ev, 0) != r.v(st) {
					ok = false
				}
			}
		}
		r.c.Check(n == 1 && ok, "C13.5", fmt.Sprintf("ready-published#%d", i+1), r.p.Pos(cl.Pos()), "readiness published once with the migration outcome", "readiness is not published exactly once with the result of channels.Start: "+pt.Describe())
	}
	// only Start publishes readiness; it runs the closure in a goroutine once
	n := 0
	for _, fn := range r.p.Prod {
		for _, ci := range core.CallSites(fn) {
			if r.p.CalleeName(ci.Common()) == "(*github.com/hannahhoward/go-pubsub.PubSub).Publish" && strings.HasSuffix(r.d.Of(ci.Common().Args[0]), ".readySub") {
				n++
				r.c.Check(fn == cl, "C13.5", "ready-publisher:"+core.ShortFn(fn), r.p.InstrPos(ci), "published by manager.Start", "readiness published from "+core.ShortFn(fn))
			}
		}
	}
	r.c.Floor("C13.5", n, 1, "publishers of readiness")
	// OnReady subscribes to the same pubsub
	if or := r.fn("C13.5", "impl", "manager", "OnReady"); or != nil {
		s := r.one("C13.5", or, "(*github.com/hannahhoward/go-pubsub.PubSub).Subscribe")
		if s != nil {
			r.argIs("C13.5", s, -1, "m.readySub", "the pubsub listeners are registered on")
			r.argIs("C13.5", s, 0, "ready", "the listener registered")
		}
	}
	// readyDispatcher calls the listener with the published error
	if rd := r.fn("C13.5", "impl", "", "readyDispatcher"); rd != nil {
		n := 0
		for _, ci := range core.CallSites(rd) {
			if strings.HasPrefix(r.p.CalleeName(ci.Common()), "dyn:") && len(ci.Common().Args) == 1 {
				n++
				got := r.d.Of(ci.Common().Args[0])
				r.c.Check(got == "evt.(error)?#0", "C13.5", "ready-dispatch", r.p.InstrPos(ci), "listener receives the migration outcome", "the ready listener is called with "+got)
			}
		}
		r.c.Floor("C13.5", n, 1, "listener calls in readyDispatcher")
	}
}

// c13NilStages (C13.6): a migrated record may have no stage log (the field is
// optional in version 2 and copied as is); the first event on such a channel
// calls the stage-log methods on a nil receiver. Every use of the receiver in
// those methods must come after the receiver was found non-nil.
func c13NilStages(r *R) {
	n := 0
	for _, name := range []string{"AddLog", "GetStage"} {
		fn := r.fn("C13.6", "", "ChannelStages", name)
		if fn == nil || len(fn.Params) == 0 {
			continue
		}
		recv := fn.Params[0]
		bad := ""
		var site ssa.Instruction
		for _, b := range fn.Blocks {
			for _, ins := range b.Instrs {
				fa, ok := ins.(*ssa.FieldAddr)
				if !ok || fa.X != recv {
					continue
				}
				n++
				if !core.HasAtom(r.p.AtomsAtInstr(fa), core.ParseAtom("-"+r.d.Of(recv)+"==nil")) && bad == "" {
					bad = "the receiver is dereferenced without having been found non-nil"
					site = fa
				}
			}
		}
		pos := r.p.Pos(fn.Pos())
		if site != nil {
			pos = r.p.InstrPos(site)
		}
		r.c.Check(bad == "", "C13.6", "nil-stage-log:"+name, pos, "tolerates a channel without a stage log", "ChannelStages."+name+": "+bad+" — the first event on a migrated channel without a stage log panics")
	}
	r.c.Floor("C13.6", n, 2, "receiver uses in the stage-log methods")
	// the record's own AddLog goes through them
	al := r.fn("C13.6", "channels/internal", "ChannelState", "AddLog")
	if al != nil {
		r.one("C13.6", al, "(*datatransfer.ChannelStages).AddLog")
	}
}
