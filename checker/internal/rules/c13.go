package rules

import (
	"fmt"

	"dtcheck/internal/core"

	"golang.org/x/tools/go/ssa"
)

var pausedTrio = []string{"ResponderPaused", "InitiatorPaused", "BothPaused"}

// c13StatusMapping (C13.2, shared with C02): on every path of
// MigrateChannelState2To3 the new Status is Ongoing exactly when the old one
// was established to be one of the three deprecated paused statuses, identity
// otherwise, and the pause flags are the stated disjunctions.
func c13StatusMapping(r *R, rule string) {
	fn := r.fn(rule, "channels/internal/migrations", "", "MigrateChannelState2To3")
	if fn == nil {
		return
	}
	// the returned record
	var rec *ssa.Alloc
	for _, b := range fn.Blocks {
		for _, ins := range b.Instrs {
			if a, ok := ins.(*ssa.Alloc); ok && a.Heap && core.TypeShort(a.Type()) == "*channels/internal.ChannelState" {
				if rec != nil {
					r.c.Stuck(rule, "record", r.p.Pos(fn.Pos()), "more than one ChannelState allocated in the migration")
					return
				}
				rec = a
			}
		}
	}
	if rec == nil {
		r.c.Stuck(rule, "record", r.p.Pos(fn.Pos()), "no ChannelState literal found in the migration")
		return
	}
	stores := map[string]*ssa.Store{}
	for _, ref := range *rec.Referrers() {
		if fa, ok := ref.(*ssa.FieldAddr); ok {
			_, name := core.FieldOwner(fa)
			for _, rr := range *fa.Referrers() {
				if st, ok := rr.(*ssa.Store); ok && st.Addr == fa {
					stores[name] = st
				}
			}
		}
	}
	old := "oldChannelState.Status"
	n := 0
	for _, pt := range r.pathsOf(rule, fn) {
		if pt.End != "return" {
			continue
		}
		n++
		rawPos := func(s string) bool { return pt.Has("+" + s + "==" + old) }
		// tri-state knowledge about "old status == s": distinct constants exclude each other
		state := func(s string) string {
			if rawPos(s) {
				return "T"
			}
			if pt.Has("-" + s + "==" + old) {
				return "F"
			}
			for _, a := range pt.Atoms {
				if a.Pol && len(a.S) > len(old)+2 && a.S[len(a.S)-len(old)-2:] == "=="+old && a.S != s+"=="+old {
					return "F" // equal to a different constant
				}
			}
			return "?" + s
		}
		or := func(a, b string) string {
			switch {
			case a == "T" || b == "T":
				return "T"
			case a == "F":
				return b
			case b == "F":
				return a
			}
			return a + "|" + b
		}
		key := fmt.Sprintf("path#%d", n)
		st := stores["Status"]
		if st == nil {
			r.c.Bad(rule, key+"/Status", r.p.Pos(fn.Pos()), "the migrated record's Status is never set")
			continue
		}
		got := pt.Desc(st.Val)
		member := or(or(state("ResponderPaused"), state("InitiatorPaused")), state("BothPaused"))
		switch got {
		case "Ongoing":
			r.c.Check(member == "T", rule, key+"/Status", r.p.InstrPos(st), "Ongoing only for a deprecated paused status", "a status that was not established to be one of the deprecated paused statuses is rewritten to Ongoing: "+pt.Describe())
		case old:
			r.c.Check(member == "F", rule, key+"/Status", r.p.InstrPos(st), "status kept when not a paused status", "the old status is kept although it may be a deprecated paused status: "+pt.Describe())
		default:
			r.c.Bad(rule, key+"/Status", r.p.InstrPos(st), "migrated Status is "+got+", neither Ongoing nor the old status")
		}
		for _, flag := range []string{"ResponderPaused", "InitiatorPaused"} {
			fs := stores[flag]
			if fs == nil {
				r.c.Bad(rule, key+"/"+flag, r.p.Pos(fn.Pos()), "the migrated record's "+flag+" flag is never set")
				continue
			}
			want := or(state(flag), state("BothPaused"))
			gv := pt.Desc(fs.Val)
			val := ""
			switch gv {
			case "true":
				val = "T"
			case "false":
				val = "F"
			default:
				at := pt.D.NormAtom(fs.Val, true)
				for _, s := range pausedTrio {
					if at.S == s+"=="+old {
						val = state(s)
						if !at.Pol {
							switch val {
							case "T":
								val = "F"
							case "F":
								val = "T"
							default:
								val = "!" + val
							}
						}
					}
				}
			}
			if val == "" {
				r.c.Bad(rule, key+"/"+flag, r.p.InstrPos(fs), flag+" is set to "+gv+", which is not a function of the old status")
				continue
			}
			r.c.Check(val == want, rule, key+"/"+flag, r.p.InstrPos(fs), flag+" = (old status is "+flag+" or BothPaused)", fmt.Sprintf("%s is %s where the old status requires %s on %s", flag, val, want, pt.Describe()))
		}
	}
	r.c.Floor(rule, n, 4, "paths through MigrateChannelState2To3")
}
