package rules

import (
	"go/types"
	"strings"

	"dtcheck/internal/core"

	"golang.org/x/tools/go/ssa"
)

// Lock analysis (DESIGN E7). Locks are abstracted by (owner type, field) or,
// for a mutex that is a local variable, by the function that declares it.

func lockID(v ssa.Value) string {
	switch x := v.(type) {
	case *ssa.FieldAddr:
		t := x.X.Type()
		if p, ok := t.Underlying().(*types.Pointer); ok {
			t = p.Elem()
		}
		owner := core.TypeShort(t)
		if s, ok := t.Underlying().(*types.Struct); ok {
			return owner + "." + s.Field(x.Field).Name()
		}
		return owner + ".?"
	case *ssa.Alloc:
		return "local:" + x.Comment + "@" + core.ShortFn(x.Parent())
	case *ssa.FreeVar:
		// captured local mutex: identify by the defining function
		fn := x.Parent()
		for fn.Parent() != nil {
			fn = fn.Parent()
		}
		return "local:" + x.Name() + "@" + core.ShortFn(fn)
	case *ssa.UnOp:
		return lockID(x.X)
	}
	return "?" + v.Name()
}

type lockOp struct {
	acquire bool
	write   bool
	id      string
}

func classifyLock(c *ssa.CallCommon) *lockOp {
	f := c.StaticCallee()
	if f == nil || f.Object() == nil || f.Object().Pkg() == nil || f.Object().Pkg().Path() != "sync" {
		return nil
	}
	recv := f.Signature.Recv()
	if recv == nil || len(c.Args) == 0 {
		return nil
	}
	rt := recv.Type().String()
	if rt != "*sync.Mutex" && rt != "*sync.RWMutex" {
		return nil
	}
	id := lockID(c.Args[0])
	switch f.Name() {
	case "Lock":
		return &lockOp{true, true, id}
	case "RLock":
		return &lockOp{true, false, id}
	case "Unlock":
		return &lockOp{false, true, id}
	case "RUnlock":
		return &lockOp{false, false, id}
	}
	return nil
}

type lockSet map[string]bool

func (s lockSet) clone() lockSet {
	n := lockSet{}
	for k := range s {
		n[k] = true
	}
	return n
}

func (s lockSet) ids() []string {
	seen := map[string]bool{}
	for k := range s {
		seen[strings.TrimSuffix(strings.TrimSuffix(k, "/W"), "/R")] = true
	}
	return sortedKeys(seen)
}

func (s lockSet) holds(id string) bool { return s[id+"/W"] || s[id+"/R"] }

var lockRegionCache = map[*ssa.Function]map[ssa.Instruction]lockSet{}

// lockRegions computes, per instruction, the locks that are held on every
// path reaching it (must-hold, intersection at joins). `defer mu.Unlock()`
// keeps the lock to the function exit.
func lockRegions(p *core.Prog, fn *ssa.Function) map[ssa.Instruction]lockSet {
	if r, ok := lockRegionCache[fn]; ok {
		return r
	}
	held := map[ssa.Instruction]lockSet{}
	if len(fn.Blocks) == 0 {
		return held
	}
	in := map[*ssa.BasicBlock]lockSet{fn.Blocks[0]: {}}
	visited := map[*ssa.BasicBlock]bool{fn.Blocks[0]: true}
	work := []*ssa.BasicBlock{fn.Blocks[0]}
	for len(work) > 0 {
		b := work[0]
		work = work[1:]
		cur := in[b].clone()
		for _, ins := range b.Instrs {
			held[ins] = cur.clone()
			if call, ok := ins.(*ssa.Call); ok {
				if op := classifyLock(call.Common()); op != nil {
					k := op.id + "/R"
					if op.write {
						k = op.id + "/W"
					}
					if op.acquire {
						cur[k] = true
					} else {
						delete(cur, k)
					}
				}
			}
		}
		for _, s := range b.Succs {
			if !visited[s] {
				visited[s] = true
				in[s] = cur.clone()
				work = append(work, s)
			} else {
				n := lockSet{}
				for k := range in[s] {
					if cur[k] {
						n[k] = true
					}
				}
				if len(n) != len(in[s]) {
					in[s] = n
					work = append(work, s)
				}
			}
		}
	}
	lockRegionCache[fn] = held
	return held
}
