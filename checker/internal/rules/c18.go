package rules

import (
	"fmt"
	"sort"
	"strings"

	"dtcheck/internal/core"

	"golang.org/x/tools/go/ssa"
)

func init() {
	register("C18", "Decides the mechanisms behind id uniqueness: the transfer-id counter is touched only through sync/atomic outside its constructor, next() returns the result of the atomic add of 1 (so concurrent opens get distinct, increasing ids), the constructor seeds it from the wall clock in nanoseconds, and every locally issued transfer id comes from that generator (value flow; the only non-restart NewRequest); Channels.CreateNew creates through the state-machine group's Begin (which refuses an existing identifier) and on refusal returns the zero id and the error without touching the existing channel; both open calls and the responder's accept path return that error before any message, transport call or further event. Not decided: uniqueness across manager lifetimes (depends on the wall clock); that Begin leaves an existing channel untouched (dependency).",
		func(c *core.Ctx) {
			r := newR(c)
			c.Assumption("go-statemachine StateGroup.Begin refuses an identifier that already exists and does not modify it")
			atomicOnly(r, "C18.1", "impl.timeCounter", "counter")
			c18Counter(r)
			c18Issue(r)
			c18Create(r)
		})
}

func c18Counter(r *R) {
	nx := r.fn("C18.1", "impl", "timeCounter", "next")
	if nx != nil {
		ps, _ := r.p.Paths(nx)
		r.c.Check(len(ps) == 1 && ps[0].RetDesc(0) == "sync/atomic.AddUint64(tc.counter,1:uint64)", "C18.1", "next", r.p.Pos(nx.Pos()), "returns atomic.AddUint64(&counter, 1)", "timeCounter.next does not return the result of an atomic add of 1 to the counter")
	}
	// every atomic operation on the counter is the add of 1 (or a load): ids never go back
	nOps := 0
	for _, fn := range r.p.Prod {
		for _, ci := range core.CallSites(fn) {
			sc := ci.Common().StaticCallee()
			if sc == nil || sc.Pkg == nil || sc.Pkg.Pkg.Path() != "sync/atomic" || len(ci.Common().Args) == 0 {
				continue
			}
			fa, ok := ci.Common().Args[0].(*ssa.FieldAddr)
			if !ok {
				continue
			}
			if o, f := core.FieldOwner(fa); o != "impl.timeCounter" || f != "counter" {
				continue
			}
			nOps++
			okOp := strings.HasPrefix(sc.Name(), "Load") || (sc.Name() == "AddUint64" && r.d.Of(ci.Common().Args[1]) == "1:uint64")
			r.c.Check(okOp, "C18.1", fmt.Sprintf("counter-op:%s#%d", core.ShortFn(fn), nOps), r.p.InstrPos(ci), "the counter only moves forward by one", "the id counter is modified by "+sc.Name()+"("+r.d.Of(ci.Common().Args[len(ci.Common().Args)-1])+") in "+core.ShortFn(fn)+": an id can be issued twice")
		}
	}
	r.c.Floor("C18.1", nOps, 1, "atomic operations on the id counter")
	nc := r.fn("C18.1", "impl", "", "newTimeCounter")
	if nc != nil {
		ok := false
		for _, pt := range r.pathsOf("C18.1", nc) {
			flds, _, has := retFields(pt, 0)
			if has && flds["counter"] == "uint64(time.Now().UnixNano())" {
				ok = true
			}
		}
		r.c.Check(ok, "C18.1", "seed", r.p.Pos(nc.Pos()), "seeded from the wall clock (ns)", "the id counter is not seeded from time.Now().UnixNano()")
	}
}

func c18Issue(r *R) {
	newSites := map[ssa.CallInstruction]bool{}
	for _, nr := range r.fnI("C18.2", "impl", "manager", "newRequest") {
		if s := r.one("C18.2", nr, "dyn:message.NewRequest"); s != nil {
			newSites[s] = true
			r.argIs("C18.2", s, 0, "m.transferIDGen.next()", "transfer id of a new request")
			r.argIs("C18.2", s, 1, "false", "restart flag of a new request")
		}
	}
	// every other NewRequest is a restart re-using a stored id
	n := 0
	for _, fn := range r.p.Prod {
		for _, ci := range core.CallSites(fn) {
			if r.p.CalleeName(ci.Common()) != "dyn:message.NewRequest" {
				continue
			}
			n++
			if newSites[ci] {
				continue
			}
			rs := r.d.Of(ci.Common().Args[1])
			id := r.d.Of(ci.Common().Args[0])
			r.c.Check(rs == "true" && strings.HasSuffix(id, ".ChannelID().ID"), "C18.2", "request-ctor:"+core.ShortFn(fn), r.p.InstrPos(ci), "restart re-using a stored id", core.ShortFn(fn)+" builds a request with id "+id+" restart="+rs+": a new request must take its id from the generator")
		}
	}
	r.c.Floor("C18.2", n, 3, "NewRequest call sites")
	r.onlyCallers("C18.2", "(*impl.timeCounter).next", 1, "(*impl.manager).newRequest")
	// the id of the created channel is the request's id
	for _, name := range []string{"OpenPushDataChannel", "OpenPullDataChannel"} {
		fn := r.fn("C18.2", "impl", "manager", name)
		rq := r.oneOf("C18.2", fn, "(*impl.manager).newRequest", "dyn:message.NewRequest")
		cn := r.one("C18.2", fn, "(*channels.Channels).CreateNew")
		if rq != nil && cn != nil {
			r.argIs("C18.2", cn, 1, r.v(rq)+"#0.TransferID()", "transfer id of the created channel")
			r.guarded("C18.2", cn, name+"/request-built", "+"+r.v(rq)+"#1==nil")
		}
	}
}

func c18Create(r *R) {
	fn := r.fn("C18.3", "channels", "Channels", "CreateNew")
	if fn != nil {
		bg := r.one("C18.3", fn, "(github.com/filecoin-project/go-statemachine/fsm.Group).Begin")
		if bg != nil {
			r.argIs("C18.3", bg, -1, "c.stateMachines", "the gated state machine group")
			n := 0
			for _, pt := range r.pathsOf("C18.3", fn) {
				if pt.End != "return" {
					continue
				}
				e := pt.Desc(bg.Value())
				n++
				key := fmt.Sprintf("CreateNew/path#%d", n)
				sends := pt.Count(r.p.Is("(github.com/filecoin-project/go-statemachine/fsm.Group).Send"))
				if pt.Has("-" + e + "==nil") {
					r.c.Check(pt.RetDesc(1) == e && strings.HasPrefix(pt.RetDesc(0), "zero:") || pt.RetDesc(0) == "datatransfer.ChannelID{}" && pt.RetDesc(1) == e, "C18.3", key, r.p.Pos(fn.Pos()), "refused creation returns the zero id and the error", "a refused creation returns ("+pt.RetDesc(0)+", "+pt.RetDesc(1)+")")
					r.c.Check(sends == 0, "C18.3", key+"/untouched", r.p.Pos(fn.Pos()), "no event sent to the existing channel", "an event is sent to the existing channel when creation is refused")
				} else {
					r.c.Check(pt.RetDesc(1) == "nil" && strings.Contains(pt.RetDesc(0), "ID:tid") && strings.Contains(pt.RetDesc(0), "Initiator:initiator"), "C18.3", key, r.p.Pos(fn.Pos()), "returns the id (initiator, responder, tid)", "creation returns id "+pt.RetDesc(0))
				}
			}
			r.c.Floor("C18.3", n, 2, "paths of CreateNew")
			// before Begin has accepted the id nothing that belongs to the Channels object is
			// touched: a refused creation must leave the existing channel's in-memory state alone too
			var early []string
			for _, pt := range r.pathsOf("C18.3", fn) {
				for _, ev := range pt.Evs {
					if ev.Instr == bg.(ssa.Instruction) {
						break
					}
					if recv := pt.ArgDesc(ev, -1); ev.C.IsInvoke() || ev.C.StaticCallee() != nil && ev.C.StaticCallee().Signature.Recv() != nil {
						if recv == "c" || strings.HasPrefix(recv, "c.") {
							early = append(early, r.p.CalleeName(ev.C))
						}
					}
				}
			}
			sort.Strings(early)
			r.c.Check(len(early) == 0, "C18.3", "CreateNew/nothing-before-Begin", r.p.Pos(fn.Pos()), "no state of the Channels object is touched before Begin accepted the id", "CreateNew calls "+strings.Join(early, ", ")+" before Begin has accepted the id: a refused duplicate creation disturbs the existing channel")
			// identifier passed to Begin is that id
			id := r.d.Of(core.Arg(bg.Common(), 0))
			r.c.Check(strings.Contains(id, "ID:tid") && strings.Contains(id, "Initiator:initiator"), "C18.3", "Begin/identifier", r.p.InstrPos(bg), "begun under the channel id", "the state machine is begun under "+id)
		}
	}
	// only the confirmed sites may end (fail / cancel) a channel: a failed request
	// for an id that already exists must not reach the existing channel
	r.onlyCallers("C18.3", "(*channels.Channels).Error", 5, "(*impl.manager).OnChannelCompleted", "(*impl.manager).OnResponseReceived", "(*impl.manager).recordRejectedValidationEvents",
		"(*impl.manager).OpenPushDataChannel", "(*impl.manager).OpenPullDataChannel", "(*impl.manager).CloseDataTransferChannelWithError")
	r.onlyCallers("C18.3", "(*channels.Channels).Cancel", 3, "(*impl.manager).OnRequestReceived", "(*impl.manager).OnResponseReceived", "(*impl.manager).CloseDataTransferChannel")
	// callers stop on the error before any other effect
	effects := []string{"(*channels.Channels).Open", "(network.DataTransferNetwork).SendMessage", "(datatransfer.Transport).OpenChannel", "(*transportoptions.TransportOptions).SetOptions",
		"(*channelsubscriptions.ChannelSubscriptions).Subscribe", "(network.DataTransferNetwork).Protect", "(*channels.Channels).Accept", "(*channelmonitor.Monitor).AddPushChannel", "(*channelmonitor.Monitor).AddPullChannel"}
	for _, x := range [][3]string{{"impl", "manager", "OpenPushDataChannel"}, {"impl", "manager", "OpenPullDataChannel"}, {"impl", "manager", "acceptRequest"}} {
		cf := r.fn("C18.3", x[0], x[1], x[2])
		cn := r.one("C18.3", cf, "(*channels.Channels).CreateNew")
		if cn == nil {
			continue
		}
		n := 0
		for _, pt := range r.pathsOf("C18.3", cf) {
			if !pt.PassesThrough(cn.Block()) {
				continue
			}
			e := pt.Desc(cn.Value()) + "#1"
			if !pt.Has("-" + e + "==nil") {
				continue
			}
			n++
			ic := pt.Index(func(ev core.Ev) bool { return ev.Instr == cn })
			after := 0
			for i := ic + 1; i < len(pt.Evs); i++ {
				if r.p.Is(effects...)(pt.Evs[i]) {
					after++
				}
			}
			last := len(pt.Ret.Results) - 1
			r.c.Check(pt.End == "return" && after == 0 && pt.RetDesc(last) == e, "C18.3", fmt.Sprintf("%s/duplicate-id-path#%d", x[2], n), r.p.Pos(cf.Pos()), "duplicate id: error returned, nothing else done", "after a refused creation "+x[2]+" goes on to act on the existing channel: "+pt.Describe())
		}
		r.c.Floor("C18.3", n, 1, "refused-creation paths of "+x[2])
	}
}
