package rules

import (
	"fmt"
	"go/types"
	"strings"

	"dtcheck/internal/core"

	"golang.org/x/tools/go/ssa"
)

func init() {
	register("C09", "Decides the wiring that makes cleanup run and settle: exactly the three cleanup statuses have the cleanup entry function, CleanupComplete maps each to its terminal status and is rejected elsewhere, and no other event moves a channel from a cleanup status to a non-cleanup status (exhaustive over the declared relation); on every path the entry function releases the transport channel once, un-protects the counterparty once and then triggers CleanupComplete; the environment releases transport, span and options; the transport forgets the channel and its request mapping; closing a channel always closes the transport, sends the cancel message of the right kind to the counterparty and fires Cancel / Error on every path after the channel was found; no blocking receive on a possibly-nil channel and every select that waits for graphsync has a ctx.Done() case. Not decided: 'promptly' as time; 'exactly once per ending' under every schedule (events with NoChange rows re-run the idempotent cleanup, see DESIGN §7).",
		func(c *core.Ctx) {
			r := newR(c)
			f := fsmOrStuck(c, "C09.0")
			c09Table(r, f)
			c02Table(c, f)
			c09EntryFunc(r)
			c09Env(r)
			noCrashNilChan(r, "C09.4", "transport/graphsync/*")
			c09Close(r)
			c09Selects(r)
		})
}

func c09Table(r *R, f *core.FSM) {
	c := r.c
	want := map[string]bool{"Cancelling": true, "Failing": true, "Completing": true}
	for st := range want {
		fn, ok := f.EntryFuncs[st]
		c.Check(ok && fn == "cleanupConnection", "C09.1", "entry:"+st, "channels/channels_fsm.go", "entry function is cleanupConnection", "status "+st+" has entry function "+fn+" (expected cleanupConnection)")
	}
	for st := range f.EntryFuncs {
		c.Check(want[st], "C09.1", "entry-only-cleanup:"+st, "channels/channels_fsm.go", "only cleanup statuses have entry functions", "status "+st+" has an entry function but is not a cleanup status")
	}
	c.Check(sameSet(f.Cleanup, []string{"Cancelling", "Failing", "Completing"}), "C09.1", "CleanupStates", "channels/channels_fsm.go", "= {Cancelling, Failing, Completing}", "CleanupStates is {"+join(f.Cleanup)+"}")
	// no event strands a cleaning-up channel outside the cleanup statuses
	for _, ev := range f.Events {
		if ev == "CleanupComplete" {
			continue
		}
		for st := range want {
			to, ok := f.Next(ev, st)
			key := ev + "@" + st
			if !ok {
				c.Triv("C09.1", "stays:"+key, "", "rejected (no row)")
				continue
			}
			if to == st {
				c.OK("C09.1", "stays:"+key, "", "does not leave the cleanup status")
				continue
			}
			row, _ := f.Lookup(ev, st)
			if ev == "Open" {
				// creation-only event: emitted right after CreateNew (checked below)
				c.OK("C09.1", "stays:"+key, c.P.Pos(row.Pos), "creation-only event (emitters checked by C09.1 open-emitters)")
				continue
			}
			c.Check(want[to], "C09.1", "stays:"+key, c.P.Pos(row.Pos), "moves only to another cleanup status",
				fmt.Sprintf("event %s moves a channel that is cleaning up (%s) to %s: the pending CleanupComplete is then rejected and the channel never reaches its terminal status", ev, st, to))
		}
	}
	r.onlyCallers("C09.1", "(*channels.Channels).Open", 3, "(*impl.manager).OpenPushDataChannel", "(*impl.manager).OpenPullDataChannel", "(*impl.manager).acceptRequest")
}

func c09EntryFunc(r *R) {
	fn := r.fn("C09.2", "channels", "", "cleanupConnection")
	if fn == nil {
		return
	}
	chid := "datatransfer.ChannelID{ID:channel.TransferID,Initiator:channel.Initiator,Responder:channel.Responder}"
	n := 0
	for _, pt := range r.pathsOf("C09.2", fn) {
		n++
		key := fmt.Sprintf("cleanupConnection/path#%d", n)
		ic := pt.Index(r.p.Is("(channels.ChannelEnvironment).CleanupChannel"))
		iu := pt.Index(r.p.Is("(channels.ChannelEnvironment).Unprotect"))
		it := pt.Index(r.p.Is("(github.com/filecoin-project/go-statemachine/fsm.Context).Trigger"))
		ok := pt.End == "return" && ic >= 0 && iu >= 0 && it >= 0 && ic < it && iu < it &&
			pt.Count(r.p.Is("(channels.ChannelEnvironment).CleanupChannel")) == 1 && pt.Count(r.p.Is("(channels.ChannelEnvironment).Unprotect")) == 1 &&
			pt.Count(r.p.Is("(github.com/filecoin-project/go-statemachine/fsm.Context).Trigger")) == 1
		if !ok {
			r.c.Bad("C09.2", key, r.p.Pos(fn.Pos()), "the cleanup entry function does not release the transport channel once, un-protect once and then trigger CleanupComplete: "+pt.Describe())
			continue
		}
		other := "channel.Responder"
		if pt.Has("-channel.Initiator==env.ID()") {
			other = "channel.Initiator"
		}
		good := pt.ArgDesc(pt.Evs[ic], 0) == chid && pt.ArgDesc(pt.Evs[iu], 0) == other && pt.ArgDesc(pt.Evs[iu], 1) == chid+".String()" &&
			pt.ArgDesc(pt.Evs[it], 0) == "CleanupComplete" && pt.RetDesc(0) == pt.Desc(pt.Evs[it].Instr.(ssa.Value)) &&
			(pt.Has("+channel.Initiator==env.ID()") || pt.Has("-channel.Initiator==env.ID()"))
		r.c.Check(good, "C09.2", key, r.p.Pos(fn.Pos()), "cleans up the channel's own id, un-protects the counterparty, triggers CleanupComplete",
			fmt.Sprintf("cleanup acts on the wrong channel/peer/event: CleanupChannel(%s) Unprotect(%s, %s) Trigger(%s)", pt.ArgDesc(pt.Evs[ic], 0), pt.ArgDesc(pt.Evs[iu], 0), pt.ArgDesc(pt.Evs[iu], 1), pt.ArgDesc(pt.Evs[it], 0)))
	}
	r.c.Floor("C09.2", n, 2, "paths of cleanupConnection")
}

func c09Env(r *R) {
	fn := r.fn("C09.3", "impl", "channelEnvironment", "CleanupChannel")
	if fn != nil {
		for i, pt := range r.pathsOf("C09.3", fn) {
			ok := pt.End == "return"
			for _, callee := range []string{"(datatransfer.Transport).CleanupChannel", "(*tracing.SpansIndex).EndChannelSpan", "(*transportoptions.TransportOptions).ClearOptions"} {
				idx := pt.Index(r.p.Is(callee))
				if pt.Count(r.p.Is(callee)) != 1 || pt.ArgDesc(pt.Evs[idx], 0) != "chid" {
					ok = false
				}
			}
			r.c.Check(ok, "C09.3", fmt.Sprintf("env.CleanupChannel/path#%d", i+1), r.p.Pos(fn.Pos()), "releases transport channel, span and options of chid", "the environment's cleanup does not release the transport channel, the span and the options of the channel exactly once: "+pt.Describe())
		}
	}
	up := r.fn("C09.3", "impl", "channelEnvironment", "Unprotect")
	if s := r.one("C09.3", up, "(network.DataTransferNetwork).Unprotect"); s != nil {
		r.argIs("C09.3", s, 0, "id", "peer un-protected")
		r.argIs("C09.3", s, 1, "tag", "protection tag")
	}
	// transport side
	tc := r.fn("C09.3", "transport/graphsync", "Transport", "CleanupChannel")
	if tc != nil {
		n := 0
		forgets := true
		for _, pt := range r.pathsOf("C09.3", tc) {
			if pt.Has("+t.dtChannels[chid]#1") {
				n++
				// (helpers introduced later are walked through, in the caller's terms)
				nDel := pt.Count(func(ev core.Ev) bool {
					bi, ok := ev.C.Value.(*ssa.Builtin)
					return ok && bi.Name() == "delete" && pt.ArgDesc(ev, 0) == "t.dtChannels" && pt.ArgDesc(ev, 1) == "chid"
				})
				if nDel != 1 {
					forgets = false
				}
				r.c.Check(pt.Count(r.p.Is("(*transport/graphsync.dtChannel).cleanup")) == 1, "C09.3", fmt.Sprintf("Transport.CleanupChannel/cleanup#%d", n), r.p.Pos(tc.Pos()), "known channel is cleaned up", "a tracked channel is not cleaned up: "+pt.Describe())
			}
		}
		r.c.Check(forgets && n > 0, "C09.3", "Transport.CleanupChannel/forget", r.p.Pos(tc.Pos()), "forgets the channel", "Transport.CleanupChannel does not delete the channel from dtChannels")
		r.c.Floor("C09.3", n, 1, "paths of Transport.CleanupChannel with a tracked channel")
	}
	c16Cleanup(r, "C09.3")
}

// c16Cleanup (C16.3, shared): dtChannel.cleanup deletes the request mapping of
// its own channel on every path and unregisters the store it registered.
func c16Cleanup(r *R, rule string) {
	fn := r.fn(rule, "transport/graphsync", "dtChannel", "cleanup")
	if fn == nil {
		return
	}
	n := 0
	for _, pt := range r.pathsOf(rule, fn) {
		n++
		idx := pt.Index(r.p.Is("(*transport/graphsync.requestIDToChannelIDMap).deleteRefs"))
		ok := pt.End == "return" && idx >= 0 && pt.ArgDesc(pt.Evs[idx], 0) == "c.channelID" && pt.ArgDesc(pt.Evs[idx], -1) == "c.t.requestIDToChannelID"
		r.c.Check(ok, rule, fmt.Sprintf("dtChannel.cleanup/mapping#%d", n), r.p.Pos(fn.Pos()), "request→channel mapping of this channel deleted", "cleanup leaves the graphsync request → channel mapping behind: "+pt.Describe())
		iu := pt.Index(r.p.Is("(github.com/ipfs/go-graphsync.GraphExchange).UnregisterPersistenceOption"))
		if pt.Has("+c.hasStore()") {
			r.c.Check(iu >= 0 && pt.ArgDesc(pt.Evs[iu], 0) == `("data-transfer-"+c.channelID.String())`, rule, fmt.Sprintf("dtChannel.cleanup/store#%d", n), r.p.Pos(fn.Pos()), "per-channel store unregistered", "a registered per-channel store is not unregistered on cleanup: "+pt.Describe())
		} else {
			r.c.Check(iu < 0, rule, fmt.Sprintf("dtChannel.cleanup/store#%d", n), r.p.Pos(fn.Pos()), "nothing to unregister", "store unregistered although none was registered")
		}
	}
	r.c.Floor(rule, n, 2, "paths of dtChannel.cleanup")
	// the mapping is deleted while the channel lock is held: the request hook and open add
	// mappings under that lock, so a cleanup that does not take it can be overtaken by them
	// and leave a mapping (and later events) for a channel that is gone
	for _, ci := range core.CallSites(fn) {
		if r.p.CalleeName(ci.Common()) == "(*transport/graphsync.requestIDToChannelIDMap).deleteRefs" {
			held := lockRegions(r.p, fn)[ci.(ssa.Instruction)]
			r.c.Check(held["transport/graphsync.dtChannel.lk/W"] || callersHold(r.p, fn, "transport/graphsync.dtChannel.lk", true, 2), rule, "dtChannel.cleanup/under-channel-lock", r.p.InstrPos(ci), "mapping deleted under the channel lock", "dtChannel.cleanup deletes the request → channel mapping without holding the channel lock (held: "+strings.Join(held.ids(), ",")+"): a concurrent request hook can re-add a mapping for the cleaned-up channel")
		}
	}
	us := r.fn(rule, "transport/graphsync", "dtChannel", "useStore")
	if s := r.one(rule, us, "(github.com/ipfs/go-graphsync.GraphExchange).RegisterPersistenceOption"); s != nil {
		r.argIs(rule, s, 0, `("data-transfer-"+c.channelID.String())`, "name the store is registered under")
	}
	dr := r.fn(rule, "transport/graphsync", "requestIDToChannelIDMap", "deleteRefs")
	if dr != nil {
		held := lockRegions(r.p, dr)
		n := 0
		for _, b := range dr.Blocks {
			for _, ins := range b.Instrs {
				if call, ok := ins.(*ssa.Call); ok {
					if bi, ok := call.Common().Value.(*ssa.Builtin); ok && bi.Name() == "delete" {
						n++
						g := false
						for _, a := range r.p.AtomsAt(b) {
							parts := strings.SplitN(a.S, "==", 2)
							if a.Pol && len(parts) == 2 && ((parts[0] == "id" && strings.HasSuffix(parts[1], ".channelID")) || (parts[1] == "id" && strings.HasSuffix(parts[0], ".channelID"))) {
								g = true
							}
						}
						r.c.Check(g && held[ins]["transport/graphsync.requestIDToChannelIDMap.lk/W"], rule, "deleteRefs/delete", r.p.InstrPos(ins), "deletes the entries of this channel under the write lock", "deleteRefs does not delete exactly the entries whose channel id matches, under the write lock")
					}
				}
			}
		}
		r.c.Floor(rule, n, 1, "deletes in deleteRefs")
	}
}

func c09Close(r *R) {
	cm := r.fn("C09.5", "impl", "manager", "cancelMessage")
	r.table("C09.5", cm, 0, []string{"chid.Initiator==m.peerID"}, func(a map[string]bool) string {
		if a["chid.Initiator==m.peerID"] {
			return "dyn:message.CancelRequest(chid.ID)"
		}
		return "dyn:message.CancelResponse(chid.ID)"
	})
	for _, x := range []struct{ name, fsm, arg string }{{"CloseDataTransferChannel", "(*channels.Channels).Cancel", ""}, {"CloseDataTransferChannelWithError", "(*channels.Channels).Error", "cherr"}} {
		fn := r.fn("C09.5", "impl", "manager", x.name)
		if fn == nil {
			continue
		}
		gb := r.one("C09.5", fn, "(*channels.Channels).GetByID")
		if gb == nil {
			continue
		}
		r.argIs("C09.5", gb, 1, "chid", "the channel closed")
		found := "+" + r.v(gb) + "#1==nil"
		// the cancel message: sent directly or in the goroutine the function starts
		var sendSites []ssa.CallInstruction
		sendSites = append(sendSites, r.sites(fn, true, "(network.DataTransferNetwork).SendMessage")...)
		okMsg := len(sendSites) == 1
		if okMsg {
			s := sendSites[0]
			okMsg = r.dOf(s.(ssa.Instruction)).Of(core.Arg(s.Common(), 1)) == r.v(gb)+"#0.OtherPeer()" && r.dOf(s.(ssa.Instruction)).Of(core.Arg(s.Common(), 2)) == "m.cancelMessage(chid)"
			// a conditional send inside the goroutine would not be a send on every path
			if s.Parent() != fn {
				for _, pt := range r.pathsOf("C09.5", s.Parent()) {
					if pt.Count(r.p.Is("(network.DataTransferNetwork).SendMessage")) != 1 {
						okMsg = false
					}
				}
			}
		}
		r.c.Check(okMsg, "C09.5", x.name+"/cancel-message", r.p.Pos(fn.Pos()), "cancel message of the right kind sent to the counterparty", "closing does not send m.cancelMessage(chid) to the channel's counterparty exactly once")
		// a send that outlives the call (made from a goroutine the function starts) must not
		// run on the caller's context: the caller releases it when the call returns
		if len(sendSites) == 1 && sendSites[0].Parent() != fn {
			s := sendSites[0]
			root := ctxRoot(core.Arg(s.Common(), 0))
			r.c.Check(root == "background", "C09.5", x.name+"/async-cancel-context", r.p.InstrPos(s), "the asynchronous cancel message is sent on its own context", "the cancel message is sent from a goroutine on a context derived from "+root+": once the closing call returns and its caller releases the context, the counterparty is never notified")
		}
		n := 0
		for _, pt := range r.pathsOf("C09.5", fn) {
			if pt.End != "return" || !pt.Has(found) {
				continue
			}
			n++
			key := fmt.Sprintf("%s/path#%d", x.name, n)
			ic := pt.Index(r.p.Is("(datatransfer.Transport).CloseChannel"))
			ifs := pt.Index(r.p.Is(x.fsm))
			sent := pt.Count(r.p.Is("(network.DataTransferNetwork).SendMessage")) == 1
			if len(sendSites) == 1 && sendSites[0].Parent() != fn {
				// sent from the goroutine: the go statement must be on the path
				sent = false
				for _, ev := range pt.Evs {
					if ev.Kind == "go" {
						if mc, ok := ev.C.Value.(*ssa.MakeClosure); ok && mc.Fn == sendSites[0].Parent() {
							sent = true
						}
						// (or the goroutine runs a method that sends it)
						if sc := ev.C.StaticCallee(); sc != nil && core.Unwrap(sc) == sendSites[0].Parent() {
							sent = true
						}
					}
				}
			}
			ok := ic >= 0 && ifs >= 0 && sent && pt.ArgDesc(pt.Evs[ic], 1) == "chid" && pt.ArgDesc(pt.Evs[ifs], 0) == "chid" && pt.Count(r.p.Is(x.fsm)) == 1
			if ok && x.arg != "" {
				ok = pt.ArgDesc(pt.Evs[ifs], 1) == x.arg
			}
			r.c.Check(ok, "C09.5", key, r.p.Pos(fn.Pos()), "transport closed, counterparty told, ending event fired", "a path that found the channel does not close the transport, send the cancel message and fire "+x.fsm+": "+pt.Describe())
		}
		r.c.Floor("C09.5", n, 2, "paths of "+x.name+" past the channel lookup")
	}
}

// c09Selects (E12, restricted): every blocking select in the graphsync
// transport that waits for another goroutine has a ctx.Done() case.
func c09Selects(r *R) {
	n := 0
	for _, fn := range scopeFuncs(r, "C09.6", []string{"transport/graphsync/*"}) {
		for _, b := range fn.Blocks {
			for _, ins := range b.Instrs {
				sel, ok := ins.(*ssa.Select)
				if !ok || !sel.Blocking {
					continue
				}
				n++
				has := false
				for _, st := range sel.States {
					if st.Dir == types.RecvOnly && strings.HasSuffix(r.d.Of(st.Chan), "ctx.Done()") {
						has = true
					}
				}
				k := 0
				for _, b2 := range fn.Blocks {
					for _, i2 := range b2.Instrs {
						if s2, ok := i2.(*ssa.Select); ok && s2.Blocking {
							k++
							if s2 == sel {
								r.c.Check(has, "C09.6", fmt.Sprintf("%s/select#%d", core.ShortFn(fn), k), r.p.InstrPos(sel), "has a ctx.Done() case", "a blocking select waits for graphsync without a ctx.Done() case: closing can hang")
							}
						}
					}
				}
			}
		}
	}
	r.c.Floor("C09.6", n, 3, "blocking selects in transport/graphsync")
}

// ctxRoot follows a context value back through the context.With* /
// trace.ContextWithSpan / tracer.Start derivations to where it comes from:
// "background" (context.Background/TODO) or the name of a parameter, captured
// variable or other origin.
func ctxRoot(v ssa.Value) string {
	for i := 0; i < 16 && v != nil; i++ {
		switch x := v.(type) {
		case *ssa.Extract:
			v = x.Tuple
		case *ssa.Phi:
			roots := map[string]bool{}
			for _, e := range x.Edges {
				if e != x {
					roots[ctxRoot(e)] = true
				}
			}
			if len(roots) == 1 {
				for k := range roots {
					return k
				}
			}
			return "several origins"
		case *ssa.UnOp:
			if a, ok := x.X.(*ssa.Alloc); ok {
				if sv := core.SingleStore(a); sv != nil {
					v = sv
					continue
				}
				return "local " + a.Comment
			}
			if fv, ok := x.X.(*ssa.FreeVar); ok {
				return "captured " + fv.Name()
			}
			return "memory"
		case *ssa.Call:
			c := x.Common()
			if sc := c.StaticCallee(); sc != nil && sc.Pkg != nil && sc.Pkg.Pkg.Path() == "context" {
				if sc.Name() == "Background" || sc.Name() == "TODO" {
					return "background"
				}
				if len(c.Args) > 0 {
					v = c.Args[0]
					continue
				}
			}
			// derivations that keep the parent's cancellation: first context-typed argument
			var next ssa.Value
			for _, a := range c.Args {
				if strings.HasSuffix(a.Type().String(), "context.Context") {
					next = a
					break
				}
			}
			if next == nil {
				return "call " + x.String()
			}
			v = next
		case *ssa.Parameter:
			return "parameter " + x.Name()
		case *ssa.FreeVar:
			return "captured " + x.Name()
		case *ssa.MakeInterface:
			v = x.X
		case *ssa.ChangeInterface:
			v = x.X
		default:
			return v.String()
		}
	}
	return "unknown"
}
