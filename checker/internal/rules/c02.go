package rules

import (
	"fmt"
	"strings"

	"dtcheck/internal/core"

	"golang.org/x/tools/go/ssa"
)

func init() {
	register("C02", "Decides that the FSM is configured to be absorbing in exactly the three terminal statuses (parameters passed by channels.New; finality list = image of the CleanupComplete rows; no declared row leaves a finality status; terminal statuses are targets of CleanupComplete only), that nothing in the module stores to the persisted Status field outside creation/migration/decoding, that Channels.Cancel swallows ErrTerminated (decision table), that every restart path tests IsChannelTerminated before acting and the terminated branch of RestartDataTransferChannel is a successful no-op (dominance facts + paths), and that the v2→v3 migration maps statuses as stated (shared with C13). Not decided: the dependency's absorbing behaviour itself; byte equality of the stored record after reopen.",
		func(c *core.Ctx) {
			r := newR(c)
			f := fsmOrStuck(c, "C02.0")
			c.Assumption("go-statemachine: a machine whose state is in FinalityStates stops and rejects/swallows later events (DESIGN §2)")
			c02Config(r, f)
			c02Table(c, f)
			c02StatusStores(r)
			c02Cancel(r)
			c02Restart(r)
			c13StatusMapping(r, "C02.8")
			noCrashNilOnError(r, "C02.7", "(*impl.manager).updateValidationStatus")
		})
}

func sameSet(a, b []string) bool {
	m := map[string]int{}
	for _, x := range a {
		m[x]++
	}
	for _, x := range b {
		m[x]--
	}
	for _, v := range m {
		if v != 0 {
			return false
		}
	}
	return true
}

// C02.1: parameters handed to the state machine.
func c02Config(r *R, f *core.FSM) {
	nw := r.fn("C02.1", "channels", "", "New")
	if nw == nil {
		return
	}
	site := r.one("C02.1", nw, "github.com/filecoin-project/go-ds-versioning/pkg/fsm.NewVersionedFSM")
	if site == nil {
		return
	}
	var lit map[string]ssa.Value
	if a := core.Arg(site.Common(), 1); a != nil {
		if u, ok := a.(*ssa.UnOp); ok {
			if al, ok := u.X.(*ssa.Alloc); ok {
				lit, _ = core.StructLitFields(al)
			}
		}
	}
	if lit == nil {
		r.c.Stuck("C02.1", "fsm.Parameters", r.p.InstrPos(site), "the fsm.Parameters argument is not a struct literal")
		return
	}
	want := map[string]string{
		"FinalityStates":  "channels.ChannelFinalityStates",
		"StateKeyField":   `"Status"`,
		"Events":          "channels.ChannelEvents",
		"StateEntryFuncs": "channels.ChannelStateEntryFuncs",
	}
	for k, w := range want {
		got := "<unset>"
		if v, ok := lit[k]; ok {
			got = r.d.Of(v)
		}
		r.c.Check(got == w, "C02.1", "fsm.Parameters."+k, r.p.InstrPos(site), k+" = "+w, fmt.Sprintf("fsm.Parameters.%s must be %s but is %s", k, w, got))
	}
	got := "<unset>"
	if v, ok := lit["Notifier"]; ok {
		got = r.d.Of(v)
	}
	r.c.Check(strings.HasSuffix(got, ".dispatch$bound"), "C02.1", "fsm.Parameters.Notifier", r.p.InstrPos(site), "Notifier = c.dispatch", "fsm.Parameters.Notifier must be the Channels.dispatch method, is "+got)
	// finality list = {Cancelled, Completed, Failed} = image of CleanupComplete rows
	r.c.Check(sameSet(f.Finality, []string{"Cancelled", "Completed", "Failed"}), "C02.1", "ChannelFinalityStates", "channels/channels_fsm.go", "= {Cancelled, Completed, Failed}", "ChannelFinalityStates is {"+join(f.Finality)+"}")
	var img []string
	for _, row := range f.RowsOf("CleanupComplete") {
		if row.Kind == "status" {
			img = append(img, row.To)
		}
	}
	r.c.Check(sameSet(img, f.Finality), "C02.1", "finality=image(CleanupComplete)", "channels/channels_fsm.go", "finality list equals the targets of CleanupComplete", "targets of CleanupComplete {"+join(img)+"} differ from ChannelFinalityStates {"+join(f.Finality)+"}")
	// IsChannelTerminated / IsChannelCleaningUp range over the right variable and return true only on equality
	for fnName, glob := range map[string]string{"IsChannelTerminated": "channels.ChannelFinalityStates", "IsChannelCleaningUp": "channels.CleanupStates"} {
		fn := r.fn("C02.1", "channels", "", fnName)
		if fn == nil {
			continue
		}
		globals := map[string]bool{}
		for _, b := range fn.Blocks {
			for _, ins := range b.Instrs {
				var ops [8]*ssa.Value
				for _, op := range ins.Operands(ops[:0]) {
					if g, ok := (*op).(*ssa.Global); ok {
						globals[r.d.Of(g)] = true
					}
				}
			}
		}
		delete(globals, "channels.log")
		r.c.Check(len(globals) == 1 && globals[glob], "C02.1", fnName+"/list", r.p.Pos(fn.Pos()), "ranges over "+glob, fnName+" must range over "+glob+" only; it reads {"+join(sortedKeys(globals))+"}")
		okAll, nTrue := true, 0
		for _, pt := range r.pathsOf("C02.1", fn) {
			if pt.End != "return" {
				continue
			}
			if pt.RetDesc(0) == "true" {
				nTrue++
				found := false
				for _, a := range pt.Atoms {
					if a.Pol && strings.HasPrefix(a.S, glob+"[") && strings.HasSuffix(a.S, "==st") {
						found = true
					}
				}
				if !found {
					okAll = false
				}
			} else if pt.RetDesc(0) != "false" {
				okAll = false
			}
		}
		r.c.Check(okAll && nTrue >= 1, "C02.1", fnName+"/table", r.p.Pos(fn.Pos()), "true exactly on membership", fnName+" does not return true exactly when the status equals a list element")
	}
}

// C02.2: table side — terminal statuses are entered by CleanupComplete only,
// and no declared row leaves a terminal status.
func c02Table(c *core.Ctx, f *core.FSM) {
	fin := map[string]bool{}
	for _, s := range f.Finality {
		fin[s] = true
	}
	want := map[string]string{"Cancelling": "Cancelled", "Failing": "Failed", "Completing": "Completed"}
	for _, row := range f.Rows {
		key := row.Event + "/" + row.From
		if row.Kind == "status" && fin[row.To] {
			c.Check(row.Event == "CleanupComplete" && want[row.From] == row.To, "C02.2", "into-terminal:"+key, c.P.Pos(row.Pos), "terminal status entered by CleanupComplete from its cleanup status", "terminal status "+row.To+" is entered by row "+row.String())
		}
		if fin[row.From] {
			c.Bad("C02.2", "out-of-terminal:"+key, c.P.Pos(row.Pos), "a transition row is declared for terminal status "+row.From+": "+row.String()+" (terminal statuses must have no explicit rows)")
		}
	}
	for from, to := range want {
		got, ok := f.Next("CleanupComplete", from)
		c.Check(ok && got == to, "C02.2", "CleanupComplete@"+from, "channels/channels_fsm.go", "→ "+to, fmt.Sprintf("δ(CleanupComplete,%s) must be %s, is %s (accepted=%v)", from, to, got, ok))
	}
	for _, st := range f.Statuses {
		if _, isCleanup := want[st]; isCleanup {
			continue
		}
		_, ok := f.Next("CleanupComplete", st)
		c.Check(!ok, "C02.2", "CleanupComplete-rejected@"+st, "channels/channels_fsm.go", "rejected outside cleanup statuses", "CleanupComplete is accepted in "+st)
	}
}

// C02.2b: no store to the persisted Status field outside the confirmed writers.
func c02StatusStores(r *R) {
	allowed := map[string]string{
		"(*channels.Channels).CreateNew":                               "initial record",
		"channels/internal/migrations.MigrateChannelState2To3":         "schema migration",
		"(*channels/internal.ChannelState).UnmarshalCBOR":              "generated decoder",
		"(*channels/internal/migrations.ChannelStateV2).UnmarshalCBOR": "generated decoder of the old schema",
	}
	n := 0
	for _, fn := range r.p.Prod {
		for _, b := range fn.Blocks {
			for _, ins := range b.Instrs {
				st, ok := ins.(*ssa.Store)
				if !ok {
					continue
				}
				fa, ok := st.Addr.(*ssa.FieldAddr)
				if !ok {
					continue
				}
				owner, fld := core.FieldOwner(fa)
				if fld != "Status" || (owner != "channels/internal.ChannelState" && owner != "channels/internal/migrations.ChannelStateV2") {
					continue
				}
				n++
				name := core.ShortFn(core.TopLevel(fn))
				_, ok = allowed[name]
				r.c.Check(ok, "C02.2", "status-writer:"+name, r.p.InstrPos(st), "confirmed writer of the Status field", name+" stores to the persisted Status field directly, bypassing the state machine")
			}
		}
	}
	r.c.Floor("C02.2", n, 3, "stores to the Status field")
}

// C02.3: cancelling a terminated channel succeeds.
func c02Cancel(r *R) {
	fn := r.fn("C02.3", "channels", "Channels", "Cancel")
	if fn == nil {
		return
	}
	send := r.one("C02.3", fn, "(*channels.Channels).send")
	if send == nil {
		return
	}
	r.argIs("C02.3", send, 1, "Cancel", "the event sent")
	sv := r.v(send)
	atom := "errors.Is(" + sv + ",github.com/filecoin-project/go-statemachine.ErrTerminated)"
	r.table("C02.3", fn, 0, []string{atom}, func(a map[string]bool) string {
		if a[atom] {
			return "nil"
		}
		return sv
	})
}

var restartActs = []string{"(*channels.Channels).CompleteCleanupOnRestart", "(*impl.manager).restartManagerPeerReceivePush",
	"(*impl.manager).restartManagerPeerReceivePull", "(*impl.manager).openPullRestartChannel", "(*impl.manager).openPushRestartChannel"}

func c02Restart(r *R) {
	// C02.4
	fn := r.fn("C02.4", "impl", "manager", "RestartDataTransferChannel")
	if fn != nil {
		gb := r.one("C02.4", fn, "(*channels.Channels).GetByID")
		if gb != nil {
			term := "channels.IsChannelTerminated(" + r.v(gb) + "#0.Status())"
			for _, callee := range restartActs {
				r.guardedCalls("C02.4", fn, false, callee, 1, "-"+term)
			}
			n := 0
			for _, pt := range r.pathsOf("C02.4", fn) {
				if !pt.Has("+" + term) {
					continue
				}
				n++
				r.c.Check(pt.RetDesc(0) == "nil" && pt.Count(r.p.Is(restartActs...)) == 0, "C02.4", fmt.Sprintf("terminated-path#%d", n), r.p.Pos(fn.Pos()),
					"restart of a terminated channel is a successful no-op", "restart of a terminated channel returns "+pt.RetDesc(0)+" / acts: "+pt.Describe())
				// nothing at all happens once the channel is found terminated: no event, no message
				var after []string
				seen := false
				for _, ev := range pt.Evs {
					name := r.p.CalleeName(ev.C)
					if name == "channels.IsChannelTerminated" {
						seen = true
						continue
					}
					if seen && ev.Kind == "call" && !strings.HasPrefix(name, "(*go.uber.org/zap.") && !strings.HasSuffix(name, ".End") {
						after = append(after, name)
					}
				}
				r.c.Check(seen && len(after) == 0, "C02.4", fmt.Sprintf("terminated-path#%d/silent", n), r.p.Pos(fn.Pos()), "nothing is done for a terminated channel",
					"restarting a terminated channel still does: "+strings.Join(after, ", "))
			}
			r.c.Floor("C02.4", n, 1, "terminated paths in RestartDataTransferChannel")
		}
	}
	// events reach subscribers only through the state machines' notifier: nobody calls it directly
	r.onlyCallers("C02.4", "(*impl.manager).notifier", 0, "(*impl.manager).notifier$bound")
	// C02.5
	vr := r.fn("C02.5", "impl", "manager", "validateRestartRequest")
	if vr != nil {
		gb := r.one("C02.5", vr, "(*channels.Channels).GetByID")
		if gb != nil {
			term := "channels.IsChannelTerminated(" + r.v(gb) + "#0.Status())"
			n := 0
			for _, pt := range r.pathsOf("C02.5", vr) {
				if pt.End == "return" && pt.RetDesc(0) == "nil" {
					n++
					r.c.Check(pt.Has("-"+term), "C02.5", fmt.Sprintf("accept-path#%d", n), r.p.Pos(vr.Pos()), "accepted only for a non-terminated channel", "a restart request is accepted without establishing that the channel is not terminated: "+pt.Describe())
				}
			}
			r.c.Floor("C02.5", n, 1, "accepting paths in validateRestartRequest")
		}
	}
	// C02.6
	rr := r.fn("C02.6", "impl", "receiver", "ReceiveRestartExistingChannelRequest")
	if rr != nil {
		gb := r.one("C02.6", rr, "(*channels.Channels).GetByID")
		if gb != nil {
			term := "channels.IsChannelTerminated(" + r.v(gb) + "#0.Status())"
			r.guardedCalls("C02.6", rr, false, "(*impl.manager).openPushRestartChannel", 1, "-"+term)
			r.guardedCalls("C02.6", rr, false, "(*impl.manager).openPullRestartChannel", 1, "-"+term)
		}
	}
}
