package rules

import (
	"fmt"
	"strings"

	"dtcheck/internal/core"

	"golang.org/x/tools/go/ssa"
)

func init() {
	register("C10", "Decides that a restart re-issues the stored request and never creates a channel: the restart request is built from the stored channel's id, original voucher, base CID and selector with the restart flag and the channel's direction and is sent to / opened with the channel's counterparty (value-flow descriptors); Channels.CreateNew is not reachable in the completed call graph from any restart entry point; the do-not-send-first-blocks extension carries ReceivedCidsTotal and is attached whenever a stored channel is passed; dtChannel.open cancels and awaits the previous request before issuing a new one; messages queued while the requester was away are flushed once and the queue cleared, and only queued while the requester is away (path rules); the responder re-validates before asking the initiator to restart and before continuing (shared with C04.6); a cleaning-up channel only finishes cleanup (shared with C06.5). Not decided: progress preservation as a before/after diff; delivery at run time.",
		func(c *core.Ctx) {
			r := newR(c)
			f := fsmOrStuck(c, "C10.0")
			c10Rebuild(r)
			c10NoCreate(r)
			c10Skip(r)
			c10Reopen(r)
			c10ReceiverState(r)
			c10Pending(r)
			c04Restart(r)
			c10Responder(r)
			c06Cleanup(r, f)
		})
}

func c10Rebuild(r *R) {
	for _, x := range []struct {
		name string
		pull string
	}{{"openPushRestartChannel", "false"}, {"openPullRestartChannel", "true"}} {
		fn := r.fn("C10.1", "impl", "manager", x.name)
		nr := r.one("C10.1", fn, "dyn:message.NewRequest")
		if nr == nil {
			continue
		}
		for i, w := range []string{"channel.ChannelID().ID", "true", x.pull, "&(channel.Voucher())", "channel.BaseCID()", "channel.Selector()"} {
			r.argIs("C10.1", nr, i, w, []string{"transfer id", "restart flag", "direction", "voucher", "base CID", "selector"}[i]+" of the re-issued request")
		}
		req := r.v(nr) + "#0"
		r.guardedCalls("C10.1", fn, false, "(network.DataTransferNetwork).Protect", 1, "+"+r.v(nr)+"#1==nil")
		if x.pull == "false" {
			if s := r.one("C10.1", fn, "(network.DataTransferNetwork).SendMessage"); s != nil {
				r.argIs("C10.1", s, 1, "channel.OtherPeer()", "peer the restart request is sent to")
				r.argIs("C10.1", s, 2, req, "message sent")
			}
		} else {
			if s := r.one("C10.1", fn, "(datatransfer.Transport).OpenChannel"); s != nil {
				for i, w := range []string{"", "channel.OtherPeer()", "channel.ChannelID()", "github.com/ipld/go-ipld-prime/linking/cid.Link{Cid:channel.BaseCID()}", "channel.Selector()", "channel", req} {
					if w != "" {
						r.argIs("C10.1", s, i, w, "transport re-open argument")
					}
				}
			}
		}
		// transport options / monitor act on the same channel id
		for _, s := range r.sites(fn, false, "(*transportoptions.TransportOptions).ApplyOptions") {
			r.argIs("C10.1", s, 0, "channel.ChannelID()", "channel whose options are applied")
		}
	}
	// channelDataTransferType: role table
	ct := r.fn("C10.1", "impl", "manager", "channelDataTransferType")
	r.table("C10.1", ct, 0, []string{"channel.IsPull()", "channel.ChannelID().Initiator==m.peerID"}, func(a map[string]bool) string {
		switch {
		case a["channel.IsPull()"] && a["channel.ChannelID().Initiator==m.peerID"]:
			return "ManagerPeerCreatePull"
		case a["channel.IsPull()"]:
			return "ManagerPeerReceivePull"
		case a["channel.ChannelID().Initiator==m.peerID"]:
			return "ManagerPeerCreatePush"
		}
		return "ManagerPeerReceivePush"
	})
	// RestartDataTransferChannel dispatches by that role
	rd := r.fn("C10.1", "impl", "manager", "RestartDataTransferChannel")
	if rd != nil {
		if gb := r.one("C10.1", rd, "(*channels.Channels).GetByID"); gb != nil {
			ch := r.v(gb) + "#0"
			ty := "m.channelDataTransferType(" + ch + ")"
			for callee, role := range map[string]string{"(*impl.manager).restartManagerPeerReceivePush": "ManagerPeerReceivePush", "(*impl.manager).restartManagerPeerReceivePull": "ManagerPeerReceivePull",
				"(*impl.manager).openPullRestartChannel": "ManagerPeerCreatePull", "(*impl.manager).openPushRestartChannel": "ManagerPeerCreatePush"} {
				for _, s := range r.guardedCalls("C10.1", rd, false, callee, 1, "+"+role+"=="+ty) {
					r.argIs("C10.1", s, 1, ch, "the stored channel that is restarted")
				}
			}
		}
	}
	re := r.fn("C10.1", "impl", "receiver", "ReceiveRestartExistingChannelRequest")
	if re != nil {
		if gb := r.one("C10.1", re, "(*channels.Channels).GetByID"); gb != nil {
			ty := "r.manager.channelDataTransferType(" + r.v(gb) + "#0)"
			r.guardedCalls("C10.1", re, false, "(*impl.manager).openPushRestartChannel", 1, "+ManagerPeerCreatePush=="+ty)
			r.guardedCalls("C10.1", re, false, "(*impl.manager).openPullRestartChannel", 1, "+ManagerPeerCreatePull=="+ty)
		}
	}
}

func c10NoCreate(r *R) {
	g := r.p.CG()
	r.c.Stats["callgraph_unresolved_dynamic_sites"] = len(g.Unresolved)
	target := r.p.Func("channels", "Channels", "CreateNew")
	if target == nil {
		r.c.Stuck("C10.2", "anchor:CreateNew", "", "Channels.CreateNew not found")
		return
	}
	for _, e := range [][3]string{{"impl", "manager", "RestartDataTransferChannel"}, {"impl", "manager", "receiveRestartRequest"}, {"impl", "receiver", "ReceiveRestartExistingChannelRequest"},
		{"impl", "manager", "openPushRestartChannel"}, {"impl", "manager", "openPullRestartChannel"}} {
		fn := r.fn("C10.2", e[0], e[1], e[2])
		if fn == nil {
			continue
		}
		reach := g.Reach([]*ssa.Function{fn}, false)
		_, bad := reach[target]
		detail := ""
		if bad {
			detail = "a restart path can create a channel: " + core.Chain(reach, target)
		}
		r.c.Check(!bad, "C10.2", "no-create-from:"+e[2], r.p.Pos(fn.Pos()), fmt.Sprintf("CreateNew unreachable (%d functions reachable)", len(reach)), detail)
		r.c.Floor("C10.2", len(reach), 5, "functions reachable from "+e[2])
	}
	// positive control: the graph does see CreateNew from the open path
	if op := r.p.Func("impl", "manager", "OpenPushDataChannel"); op != nil {
		_, ok := g.Reach([]*ssa.Function{op}, false)[target]
		if !ok {
			r.c.Stuck("C10.2", "callgraph-control", "", "the call graph does not reach CreateNew from OpenPushDataChannel: the reachability rule is blind")
		}
	}
}

func c10Skip(r *R) {
	fn := r.fn("C10.3", "transport/graphsync", "", "getDoNotSendFirstBlocksExtension")
	if s := r.one("C10.3", fn, "github.com/ipfs/go-graphsync/donotsendfirstblocks.EncodeDoNotSendFirstBlocks"); s != nil {
		r.argIs("C10.3", s, 0, "channel.ReceivedCidsTotal()", "number of blocks the sender is told to skip")
	}
	// OpenChannel: with a stored channel the request carries that extension, without
	// one it does not (the helper between the two, when present, is walked through)
	oc := r.fn("C10.3", "transport/graphsync", "Transport", "OpenChannel")
	if oc != nil {
		op := r.one("C10.3", oc, "(*transport/graphsync.dtChannel).open")
		if op != nil {
			r.argIs("C10.3", op, 5, "channel", "stored channel handed to open")
			r.argIs("C10.3", op, 1, "channelID", "channel id")
			r.argIs("C10.3", op, 2, "dataSender", "peer the request is sent to")
		}
		isSkip := r.p.Is("transport/graphsync.getDoNotSendFirstBlocksExtension")
		nWith, nWithout := 0, 0
		for _, pt := range r.pathsThroughHelpers("C10.3", oc, r.p.Func("transport/graphsync", "Transport", "getRestartExtension")) {
			io := pt.Index(r.p.Is("(*transport/graphsync.dtChannel).open"))
			if io < 0 {
				continue
			}
			exts := pt.ArgDesc(pt.Evs[io], 6)
			is := pt.Index(isSkip)
			switch {
			case pt.HasBefore(pt.Evs[io].Instr, "-channel==nil"):
				nWith++
				ok := pt.Count(isSkip) == 1 && is < io && pt.ArgDesc(pt.Evs[is], 0) == "channel" &&
					strings.Contains(exts, "transport/graphsync.getDoNotSendFirstBlocksExtension(channel)#0") &&
					pt.HasBefore(pt.Evs[io].Instr, "+transport/graphsync.getDoNotSendFirstBlocksExtension(channel)#1==nil")
				r.c.Check(ok, "C10.3", fmt.Sprintf("OpenChannel/restart-path#%d", nWith), r.p.InstrPos(pt.Evs[io].Instr), "stored channel ⇒ request carries the skip extension", "a restart with a stored channel opens the graphsync request with extensions "+exts+", which do not include the skip-blocks extension: "+pt.Describe())
			case pt.HasBefore(pt.Evs[io].Instr, "+channel==nil"):
				nWithout++
				r.c.Check(is < 0 && !strings.Contains(exts, "getDoNotSendFirstBlocksExtension"), "C10.3", fmt.Sprintf("OpenChannel/fresh-path#%d", nWithout), r.p.InstrPos(pt.Evs[io].Instr), "no stored channel ⇒ no skip extension", "skip extension built without a stored channel: "+pt.Describe())
			default:
				r.c.Bad("C10.3", fmt.Sprintf("OpenChannel/undecided-path#%d", len(r.c.Obs)), r.p.InstrPos(pt.Evs[io].Instr), "the request is opened without testing whether there is a stored channel: "+pt.Describe())
			}
		}
		r.c.Floor("C10.3", nWith, 1, "paths of OpenChannel opening with a stored channel")
		r.c.Floor("C10.3", nWithout, 1, "paths of OpenChannel opening without one")
	}
}

func c10Reopen(r *R) {
	fn := r.fn("C10.4", "transport/graphsync", "dtChannel", "open")
	if fn == nil {
		return
	}
	nOld, nNew := 0, 0
	for _, pt := range r.pathsOf("C10.4", fn) {
		ir := pt.Index(r.p.Is("(github.com/ipfs/go-graphsync.GraphExchange).Request"))
		if ir < 0 {
			continue
		}
		ic := pt.Index(r.p.Is("(*transport/graphsync.dtChannel).cancel"))
		iw := pt.Index(r.p.Is("transport/graphsync.waitForCompleteHook"))
		if pt.Has("-c.requestID==nil") {
			nOld++
			ok := ic >= 0 && iw >= 0 && ic < ir && iw < ir && pt.Has("+"+pt.Desc(pt.Evs[iw].Instr.(ssa.Value))+"==nil")
			r.c.Check(ok, "C10.4", fmt.Sprintf("open/existing-request-path#%d", nOld), r.p.Pos(fn.Pos()), "previous request cancelled and awaited before the new one", "a new graphsync request is issued while a previous one exists without cancelling and awaiting it: "+pt.Describe())
		} else if pt.Has("+c.requestID==nil") {
			nNew++
			r.c.Check(ic < 0, "C10.4", fmt.Sprintf("open/fresh-path#%d", nNew), r.p.Pos(fn.Pos()), "nothing to cancel", "cancel called without an existing request")
		} else {
			r.c.Bad("C10.4", fmt.Sprintf("open/unguarded-path#%d", len(r.c.Obs)), r.p.Pos(fn.Pos()), "a graphsync request is issued without testing for an existing request: "+pt.Describe())
		}
	}
	r.c.Floor("C10.4", nOld, 1, "re-open paths of dtChannel.open")
	r.c.Floor("C10.4", nNew, 1, "fresh-open paths of dtChannel.open")
}

func c10Pending(r *R) {
	fn := r.fn("C10.5", "transport/graphsync", "dtChannel", "gsDataRequestRcvd")
	if fn != nil {
		// stores on the requesterCancelled branch
		var clearFlag, clearQueue bool
		var sendArgOK bool
		for _, b := range fn.Blocks {
			atoms := r.p.AtomsAt(b)
			for _, ins := range b.Instrs {
				switch x := ins.(type) {
				case *ssa.Store:
					d := r.d.Of(x.Addr)
					if d == "c.requesterCancelled" && r.d.Of(x.Val) == "false" && core.HasAtom(atoms, core.Atom{S: "c.requesterCancelled", Pol: true}) {
						clearFlag = true
					}
					if d == "c.pendingExtensions" && r.d.Of(x.Val) == "nil" && core.HasAtom(atoms, core.Atom{S: "c.requesterCancelled", Pol: true}) {
						clearQueue = true
					}
				case *ssa.Call:
					if r.p.CalleeName(x.Common()) == "(github.com/ipfs/go-graphsync.IncomingRequestHookActions).SendExtensionData" {
						a := r.d.Of(x.Common().Args[0])
						sendArgOK = strings.HasPrefix(a, "c.pendingExtensions[") && core.HasAtom(atoms, core.Atom{S: "c.requesterCancelled", Pol: true})
					}
				}
			}
		}
		r.c.Check(clearFlag, "C10.5", "flush/flag-cleared", r.p.Pos(fn.Pos()), "requesterCancelled cleared on the next request", "the requester-away flag is not cleared when the next request arrives")
		r.c.Check(sendArgOK, "C10.5", "flush/sent", r.p.Pos(fn.Pos()), "every queued extension is sent", "queued extensions are not sent on the next request")
		r.c.Check(clearQueue, "C10.5", "flush/queue-cleared", r.p.Pos(fn.Pos()), "queue cleared after flushing", "the queue of pending messages is not cleared after it is flushed: the messages are delivered again on every later request")
	}
	rs := r.fn("C10.5", "transport/graphsync", "dtChannel", "resume")
	if rs != nil {
		n := 0
		for _, b := range rs.Blocks {
			for _, ins := range b.Instrs {
				if st, ok := ins.(*ssa.Store); ok && r.d.Of(st.Addr) == "c.pendingExtensions" {
					n++
					v := r.d.Of(st.Val)
					r.guarded("C10.5", st, "resume/queue-only-when-away", "+c.requesterCancelled", "-c.requestID==nil")
					r.c.Check(strings.HasPrefix(v, "dyn:append(c.pendingExtensions,"), "C10.5", "resume/queue-append", r.p.InstrPos(st), "appended to the queue", "pending messages are overwritten instead of appended: "+v)
				}
			}
		}
		r.c.Floor("C10.5", n, 1, "stores to pendingExtensions in resume")
		// on the away path nothing is sent to graphsync
		for i, pt := range r.pathsOf("C10.5", rs) {
			if pt.Has("+c.requesterCancelled") && pt.End == "return" {
				r.c.Check(pt.Count(r.p.Is("(github.com/ipfs/go-graphsync.GraphExchange).Unpause")) == 0, "C10.5", fmt.Sprintf("resume/away-path#%d", i+1), r.p.Pos(rs.Pos()), "no unpause while the requester is away", "unpause sent while the requester is away")
			}
		}
	}
	oc := r.fn("C10.5", "transport/graphsync", "dtChannel", "onRequesterCancelled")
	if oc != nil {
		ok := false
		for _, b := range oc.Blocks {
			for _, ins := range b.Instrs {
				if st, isSt := ins.(*ssa.Store); isSt && r.d.Of(st.Addr) == "c.requesterCancelled" && r.d.Of(st.Val) == "true" {
					ok = true
				}
			}
		}
		r.c.Check(ok, "C10.5", "onRequesterCancelled", r.p.Pos(oc.Pos()), "marks the requester away", "onRequesterCancelled does not mark the requester as away")
	}
}

func c10Responder(r *R) {
	for _, name := range []string{"restartManagerPeerReceivePush", "restartManagerPeerReceivePull"} {
		fn := r.fn("C10.6", "impl", "manager", name)
		vr := r.one("C10.6", fn, "(*impl.manager).validateRestart")
		if vr == nil {
			continue
		}
		r.argIs("C10.6", vr, 0, "channel", "channel re-validated")
		v := r.v(vr)
		for _, s := range r.guardedCalls("C10.6", fn, false, "(network.DataTransferNetwork).SendMessage", 1, "+"+v+"#1==nil", "+"+v+"#0.Accepted") {
			r.argIs("C10.6", s, 1, "channel.OtherPeer()", "peer asked to restart")
			r.argIs("C10.6", s, 2, "dyn:message.RestartExistingChannelRequest(channel.ChannelID())", "restart-existing-channel request for this channel")
		}
	}
}

// c10ReceiverState (C10.7): when the responder answers an accepted push
// restart by opening the transport channel, the channel state it hands to the
// transport (from which the skip count is taken) is the one looked up after the
// restart request was processed, and the lookup succeeded; a new request hands
// over none.
func c10ReceiverState(r *R) {
	fn := r.fn("C10.7", "impl", "receiver", "receiveRequest")
	orr := r.one("C10.7", fn, "(*impl.manager).OnRequestReceived")
	if fn == nil || orr == nil {
		return
	}
	resp := r.v(orr) + "#0"
	r.c.Assumption("message accessors (IsRestart, IsNew, ...) are pure functions of the message: asking twice gives the same answer (their tables are decided by C12.3)")
	isOpen := r.p.Is("(datatransfer.Transport).OpenChannel")
	isGet := r.p.Is("(*channels.Channels).GetByID")
	nRe, nNew := 0, 0
	for _, pt := range r.pathsOf("C10.7", fn) {
		io := pt.Index(isOpen)
		ir := pt.Index(r.p.Is("(*impl.manager).OnRequestReceived"))
		if io < 0 || ir < 0 || ir > io {
			continue
		}
		open := pt.Evs[io]
		ch := pt.ArgDesc(open, 5)
		if pt.HasBefore(open.Instr, "+"+resp+".IsRestart()") && pt.HasBefore(open.Instr, "-"+resp+".IsRestart()") {
			continue // the message's accessor asked twice with different answers: not an execution (accessors are pure, C12.3)
		}
		switch {
		case pt.HasBefore(open.Instr, "+"+resp+".IsRestart()"):
			nRe++
			ok := false
			for gi, ev := range pt.Evs {
				if gi <= ir || gi >= io || !isGet(ev) {
					continue
				}
				g := pt.Desc(ev.Instr.(ssa.Value))
				if g+"#0" == ch && pt.ArgDesc(ev, 1) == pt.ArgDesc(open, 2) && pt.HasBefore(open.Instr, "+"+g+"#1==nil") {
					ok = true
				}
			}
			if nRe <= 2 || !ok {
				r.c.Check(ok, "C10.7", fmt.Sprintf("receiveRequest/restart-state#%d", nRe), r.p.InstrPos(open.Instr), "transport re-opened with the channel state read after the restart was processed", "an accepted push restart opens the transport channel with "+ch+", which is not a successful lookup of the channel made after the restart request was processed (the sender is told to skip a stale or missing block count): "+pt.Describe())
			}
		case pt.HasBefore(open.Instr, "-"+resp+".IsRestart()"):
			nNew++
			if nNew <= 2 || ch != "nil" {
				r.c.Check(ch == "nil", "C10.7", fmt.Sprintf("receiveRequest/new-state#%d", nNew), r.p.InstrPos(open.Instr), "a new request hands the transport no stored state", "a new push request opens the transport channel with stored state "+ch)
			}
		default:
			r.c.Bad("C10.7", fmt.Sprintf("receiveRequest/undecided#%d", len(r.c.Obs)), r.p.InstrPos(open.Instr), "the transport channel is opened without testing whether the response is a restart: "+pt.Describe())
		}
	}
	r.c.Floor("C10.7", nRe, 1, "restart paths opening the transport in receiveRequest")
	r.c.Floor("C10.7", nNew, 1, "new-request paths opening the transport in receiveRequest")
}
