package rules

import (
	"fmt"
	"strings"

	"dtcheck/internal/core"

	"golang.org/x/tools/go/ssa"
)

func init() {
	register("C05", "Decides that channel identity is always built from the authenticated sender (libp2p RemotePeer / graphsync hook peer) and the local peer id, never from message content (value-flow descriptors of the ChannelID literals on every path); that every role / field check named by the property dominates the effect it protects: the five checks of validateRestartRequest on its accepting return, the three of ReceiveRestartExistingChannelRequest on both re-open calls, the channel-id cross-check of processExtension, the initiator-only / responder-only checks of SendVoucher / SendVoucherResult / updateValidationStatus, and the initiator test of restartRequest. Not decided: libp2p / graphsync peer authentication; 'durable state untouched' as a datastore diff.",
		func(c *core.Ctx) {
			r := newR(c)
			c.Assumption("libp2p Conn().RemotePeer() and the peer argument of graphsync hooks are authenticated by those libraries")
			c05Identity(r)
			c05Extension(r)
			c05RestartRequest(r)
			c05RestartExisting(r)
			c05Local(r)
		})
}

func c05Identity(r *R) {
	// receiver: chid built from the sender argument and the local peer
	for _, x := range []struct{ fn, callee, want string }{
		{"receiveRequest", "(*impl.manager).OnRequestReceived", "datatransfer.ChannelID{ID:incoming.TransferID(),Initiator:initiator,Responder:r.manager.peerID}"},
		{"receiveResponse", "(*impl.manager).OnResponseReceived", "datatransfer.ChannelID{ID:incoming.TransferID(),Initiator:r.manager.peerID,Responder:sender}"},
	} {
		fn := r.fn("C05.1", "impl", "receiver", x.fn)
		if s := r.one("C05.1", fn, x.callee); s != nil {
			r.argIs("C05.1", s, 0, x.want, "the channel id the message is applied to")
			r.argIs("C05.1", s, 1, "incoming", "the message")
		}
		// every transport call in the function acts on that same id
		if fn != nil {
			for _, s := range r.sites(fn, false, "(datatransfer.Transport).OpenChannel", "(datatransfer.Transport).CloseChannel", "(datatransfer.PauseableTransport).PauseChannel", "(datatransfer.PauseableTransport).ResumeChannel") {
				idx := 0
				switch r.p.CalleeName(s.Common()) {
				case "(datatransfer.Transport).OpenChannel":
					idx = 2
				case "(datatransfer.Transport).CloseChannel", "(datatransfer.PauseableTransport).PauseChannel":
					idx = 1
				case "(datatransfer.PauseableTransport).ResumeChannel":
					idx = 2
				}
				got := r.dOf(s.(ssa.Instruction)).Of(s.Common().Args[idx])
				r.c.Check(got == x.want, "C05.1", r.siteKey(s)+"/chid", r.p.InstrPos(s), "transport acts on the sender-derived channel id", "transport call acts on "+got+" instead of the sender-derived id "+x.want)
			}
		}
	}
	// network: the peer handed to the receiver is the stream's remote peer
	hs := r.fn("C05.1", "network", "libp2pDataTransferNetwork", "handleNewStream")
	if hs != nil {
		n := 0
		for _, s := range r.sites(hs, false, "(network.Receiver).ReceiveRequest", "(network.Receiver).ReceiveResponse", "(network.Receiver).ReceiveRestartExistingChannelRequest") {
			n++
			got := r.dOf(s.(ssa.Instruction)).Of(s.Common().Args[1])
			r.c.Check(got == "s.Conn().RemotePeer()", "C05.1", r.siteKey(s)+"/peer", r.p.InstrPos(s), "sender = s.Conn().RemotePeer()", "the sender handed to the receiver is "+got+", not the stream's authenticated remote peer")
		}
		r.c.Floor("C05.1", n, 3, "receiver dispatch sites in handleNewStream")
	}
	// transport hooks: chid literal from hook peer p and t.peerID, by message kind
	rh := r.fn("C05.1", "transport/graphsync", "Transport", "gsReqRecdHook")
	if rh != nil {
		nq, np := 0, 0
		for _, pt := range r.pathsOf("C05.1", rh) {
			for _, ev := range pt.Evs {
				name := r.p.CalleeName(ev.C)
				if name != "(datatransfer.EventsHandler).OnRequestReceived" && name != "(datatransfer.EventsHandler).OnResponseReceived" {
					continue
				}
				got := pt.ArgDesc(ev, 0)
				msg := "transport/graphsync/extension.GetTransferData(request,t.supportedExtensions)#0"
				if name == "(datatransfer.EventsHandler).OnRequestReceived" {
					nq++
					want := "datatransfer.ChannelID{ID:" + msg + ".TransferID(),Initiator:p,Responder:t.peerID}"
					if nq == 1 || got != want {
						r.c.Check(got == want && pt.HasBefore(ev.Instr, "+"+msg+".IsRequest()"), "C05.1", fmt.Sprintf("gsReqRecdHook/request-chid#%d", nq), r.p.InstrPos(ev.Instr), "request ⇒ Initiator = remote peer p", "incoming graphsync request applied to channel "+got+" (expected "+want+" under IsRequest)")
					}
				} else {
					np++
					want := "datatransfer.ChannelID{ID:" + msg + ".TransferID(),Initiator:t.peerID,Responder:p}"
					if np == 1 || got != want {
						r.c.Check(got == want && pt.HasBefore(ev.Instr, "-"+msg+".IsRequest()"), "C05.1", fmt.Sprintf("gsReqRecdHook/response-chid#%d", np), r.p.InstrPos(ev.Instr), "response ⇒ Initiator = self", "incoming graphsync response applied to channel "+got+" (expected "+want+" under !IsRequest)")
					}
				}
			}
		}
		r.c.Floor("C05.1", nq, 1, "request paths in gsReqRecdHook")
		r.c.Floor("C05.1", np, 1, "response paths in gsReqRecdHook")
	}
	oh := r.fn("C05.1", "transport/graphsync", "Transport", "gsOutgoingRequestHook")
	if oh != nil {
		if s := r.one("C05.1", oh, "(datatransfer.EventsHandler).OnChannelOpened"); s != nil {
			n := 0
			msg := "transport/graphsync/extension.GetTransferData(request,t.supportedExtensions)#0"
			for _, pt := range pathsThrough(r.pathsOf("C05.1", oh), s) {
				ev, _ := evOf(pt, s)
				got := pt.ArgDesc(ev, 0)
				n++
				want := "datatransfer.ChannelID{ID:" + msg + ".TransferID(),Initiator:p,Responder:t.peerID}"
				if pt.HasBefore(s, "+"+msg+".IsRequest()") {
					want = "datatransfer.ChannelID{ID:" + msg + ".TransferID(),Initiator:t.peerID,Responder:p}"
				}
				r.c.Check(got == want, "C05.1", fmt.Sprintf("gsOutgoingRequestHook/chid#%d", n), r.p.InstrPos(s), "outgoing request: request ⇒ Initiator = self, response ⇒ Initiator = p", "outgoing graphsync request attributed to channel "+got+", expected "+want)
			}
			r.c.Floor("C05.1", n, 2, "paths to OnChannelOpened")
		}
	}
}

func c05Extension(r *R) {
	fn := r.fn("C05.2", "transport/graphsync", "Transport", "processExtension")
	if fn == nil {
		return
	}
	msg := "transport/graphsync/extension.GetTransferData(gsMsg,exts)#0"
	if s := r.one("C05.2", fn, "(datatransfer.EventsHandler).OnRequestReceived"); s != nil {
		r.guarded("C05.2", s, r.siteKey(s), "+chid==datatransfer.ChannelID{ID:"+msg+".TransferID(),Initiator:p,Responder:t.peerID}", "+"+msg+".IsRequest()")
		r.argIs("C05.2", s, 0, "chid", "channel the request is applied to")
	}
	if s := r.one("C05.2", fn, "(datatransfer.EventsHandler).OnResponseReceived"); s != nil {
		r.guarded("C05.2", s, r.siteKey(s), "+chid==datatransfer.ChannelID{ID:"+msg+".TransferID(),Initiator:t.peerID,Responder:p}", "-"+msg+".IsRequest()")
		r.argIs("C05.2", s, 0, "chid", "channel the response is applied to")
	}
	// callers pass the hook's peer and a channel id looked up for the graphsync request
	n := 0
	for caller, ss := range r.p.Callers("(*transport/graphsync.Transport).processExtension") {
		for _, s := range ss {
			n++
			chid, p := r.dOf(s.(ssa.Instruction)).Of(core.Arg(s.Common(), 0)), r.dOf(s.(ssa.Instruction)).Of(core.Arg(s.Common(), 2))
			okChid := strings.HasPrefix(chid, "t.requestIDToChannelID.load(") && strings.HasSuffix(chid, "#0")
			r.c.Check(okChid && p == "p", "C05.2", "caller:"+core.ShortFn(caller), r.p.InstrPos(s), "extension processed for the request's own channel and the hook's peer", fmt.Sprintf("processExtension called with chid=%s peer=%s", chid, p))
		}
	}
	r.c.Floor("C05.2", n, 2, "callers of processExtension")
}

func c05RestartRequest(r *R) {
	fn := r.fn("C05.3", "impl", "manager", "validateRestartRequest")
	if fn != nil {
		if gb := r.one("C05.3", fn, "(*channels.Channels).GetByID"); gb != nil {
			r.argIs("C05.3", gb, 1, "chid", "the channel the request is checked against")
			ch := r.v(gb) + "#0"
			need := []string{
				"+" + r.v(gb) + "#1==nil",
				"-channels.IsChannelTerminated(" + ch + ".Status())",
				"+" + ch + ".ChannelID().Initiator==otherPeer",
				"+" + ch + ".BaseCID()==req.BaseCid()",
				"+req.Voucher()#1==nil",
				"+" + ch + ".Voucher().Type==req.VoucherType()",
				"+github.com/ipld/go-ipld-prime.DeepEqual(req.Voucher()#0," + ch + ".Voucher().Voucher)",
			}
			n := 0
			for _, pt := range r.pathsOf("C05.3", fn) {
				if pt.End != "return" || pt.RetDesc(0) != "nil" {
					continue
				}
				n++
				for _, a := range need {
					r.c.Check(pt.Has(a), "C05.3", fmt.Sprintf("accept-path#%d/%s", n, a), r.p.Pos(fn.Pos()), "established before accepting", "a restart request is accepted without establishing "+a+": "+pt.Describe())
				}
			}
			r.c.Floor("C05.3", n, 1, "accepting paths of validateRestartRequest")
		}
	}
	rr := r.fn("C05.3", "impl", "manager", "restartRequest")
	if rr != nil {
		// every call with an effect is made only when we are not the initiator
		for _, callee := range []string{"(*impl.manager).validateRestartRequest", "(*impl.manager).validateRestart", "(*channels.Channels).Restart", "(*impl.manager).recordRejectedValidationEvents",
			"(*impl.manager).recordAcceptedValidationEvents", "(network.DataTransferNetwork).Protect", "(*transportoptions.TransportOptions).ApplyOptions"} {
			r.guardedCalls("C05.3", rr, false, callee, 1, "-chid.Initiator==m.peerID")
		}
		if s := r.one("C05.3", rr, "(*impl.manager).validateRestartRequest"); s != nil {
			r.argIs("C05.3", s, 1, "chid.Initiator", "the peer the restart request is attributed to")
			r.argIs("C05.3", s, 2, "chid", "the channel")
			r.argIs("C05.3", s, 3, "incoming", "the request")
		}
	}
}

func c05RestartExisting(r *R) {
	fn := r.fn("C05.4", "impl", "receiver", "ReceiveRestartExistingChannelRequest")
	if fn == nil {
		return
	}
	gb := r.one("C05.4", fn, "(*channels.Channels).GetByID")
	if gb == nil {
		return
	}
	r.argIs("C05.4", gb, 1, "incoming.RestartChannelId()#0", "the channel named by the request")
	ch := r.v(gb) + "#0"
	g := []string{"+" + r.v(gb) + "#1==nil", "+" + ch + ".ChannelID().Initiator==r.manager.peerID", "+" + ch + ".OtherPeer()==sender", "-channels.IsChannelTerminated(" + ch + ".Status())"}
	for _, callee := range []string{"(*impl.manager).openPushRestartChannel", "(*impl.manager).openPullRestartChannel"} {
		for _, s := range r.guardedCalls("C05.4", fn, false, callee, 1, g...) {
			r.argIs("C05.4", s, 1, ch, "the channel re-opened")
		}
	}
}

func c05Local(r *R) {
	sv := r.fn("C05.5", "impl", "manager", "SendVoucher")
	if sv != nil {
		r.guardedCalls("C05.5", sv, false, "(network.DataTransferNetwork).SendMessage", 1, "+channelID.Initiator==m.peerID")
		r.guardedCalls("C05.5", sv, false, "(*channels.Channels).NewVoucher", 1, "+channelID.Initiator==m.peerID")
	}
	svr := r.fn("C05.5", "impl", "manager", "SendVoucherResult")
	if svr != nil {
		r.guardedCalls("C05.5", svr, false, "(network.DataTransferNetwork).SendMessage", 1, "-channelID.Initiator==m.peerID")
		r.guardedCalls("C05.5", svr, false, "(*channels.Channels).NewVoucherResult", 1, "-channelID.Initiator==m.peerID")
	}
	uv := r.fn("C05.5", "impl", "manager", "updateValidationStatus")
	if uv != nil {
		for _, s := range r.guardedCalls("C05.5", uv, false, "(*impl.manager).processValidationUpdate", 1, "-chid.Initiator==m.peerID") {
			r.argIs("C05.5", s, 1, "chid", "the channel updated")
		}
		r.guardedCalls("C05.5", uv, false, "(*impl.manager).handleTransportUpdate", 1, "-chid.Initiator==m.peerID")
	}
	// the public entry point has no other route to the update
	r.onlyCallers("C05.5", "(*impl.manager).processValidationUpdate", 1, "(*impl.manager).updateValidationStatus")
	r.onlyCallers("C05.5", "(*impl.manager).handleTransportUpdate", 1, "(*impl.manager).updateValidationStatus")
	r.onlyCallers("C05.5", "(*impl.manager).updateValidationStatus", 1, "(*impl.manager).UpdateValidationStatus")
	// messages are addressed to the channel's counterparty
	for _, fn := range []*ssa.Function{sv, svr} {
		if fn == nil {
			continue
		}
		gb := r.one("C05.5", fn, "(*channels.Channels).GetByID")
		if gb == nil {
			continue
		}
		r.argIs("C05.5", gb, 1, "channelID", "the channel looked up")
		for _, s := range r.sites(fn, false, "(network.DataTransferNetwork).SendMessage") {
			r.argIs("C05.5", s, 1, r.v(gb)+"#0.OtherPeer()", "the peer the message is sent to")
		}
	}
}
