package rules

import (
	"fmt"
	"strings"

	"dtcheck/internal/core"
)

// Classification of FSM events (frozen, one line of reason each).
// bookkeeping: never changes the lifecycle status.
var bookkeepingEvents = map[string]string{
	"DataReceived":             "block index report",
	"DataSent":                 "block index report",
	"DataQueued":               "block index report",
	"DataReceivedProgress":     "byte progress",
	"DataSentProgress":         "byte progress",
	"DataQueuedProgress":       "byte progress",
	"DataLimitExceeded":        "limit notice: marks responder paused",
	"SetDataLimit":             "records the limit",
	"SetRequiresFinalization":  "records the finalization requirement",
	"Disconnected":             "network-error notice",
	"SendDataError":            "network-error notice",
	"ReceiveDataError":         "network-error notice",
	"RequestCancelled":         "transport notice",
	"NewVoucher":               "voucher log",
	"NewVoucherResult":         "voucher-result log",
	"PauseInitiator":           "pause flag",
	"ResumeInitiator":          "pause flag",
	"PauseResponder":           "pause flag",
	"Restart":                  "records a restart, clears the message",
	"Opened":                   "records transport open, clears the message",
	"CompleteCleanupOnRestart": "re-runs the entry function of a cleanup status",
}

// lifecycle: may change the status; must not touch counters, flags, vouchers.
var lifecycleEvents = map[string]string{
	"Open": "", "Accept": "", "TransferInitiated": "", "Cancel": "", "Error": "", "FinishTransfer": "",
	"ResponderCompletes": "", "ResponderBeginsFinalization": "", "BeginFinalizing": "", "Complete": "", "CleanupComplete": "",
}

// ResumeResponder is bookkeeping except for the single release row Finalizing → Completing.

var accountingFields = []string{"Queued", "Sent", "Received", "QueuedBlocksTotal", "SentBlocksTotal", "ReceivedBlocksTotal",
	"InitiatorPaused", "ResponderPaused", "Vouchers", "VoucherResults", "DataLimit", "RequiresFinalization"}

// identity fields no action may ever write
var identityFields = []string{"SelfPeer", "TransferID", "Initiator", "Responder", "BaseCid", "Selector", "Sender", "Recipient", "TotalSize", "Status"}

// ownField: the only accounting field an event's action may write.
var ownField = map[string]string{
	"DataReceived": "ReceivedBlocksTotal", "DataSent": "SentBlocksTotal", "DataQueued": "QueuedBlocksTotal",
	"DataReceivedProgress": "Received", "DataSentProgress": "Sent", "DataQueuedProgress": "Queued",
	"DataLimitExceeded": "ResponderPaused", "SetDataLimit": "DataLimit", "SetRequiresFinalization": "RequiresFinalization",
	"NewVoucher": "Vouchers", "NewVoucherResult": "VoucherResults",
	"PauseInitiator": "InitiatorPaused", "ResumeInitiator": "InitiatorPaused", "PauseResponder": "ResponderPaused", "ResumeResponder": "ResponderPaused",
}

// labels of the inductive labelling (DESIGN C03): F local transport finished
// observed, R un-paused Complete observed, Z paused Complete observed.
var labelF = map[string]bool{"TransferFinished": true, "ResponderFinalizingTransferFinished": true}
var labelR = map[string]bool{"ResponderCompleted": true}
var labelZ = map[string]bool{"ResponderFinalizing": true, "ResponderFinalizingTransferFinished": true}

func fsmOrStuck(c *core.Ctx, rule string) *core.FSM {
	f := c.P.ExtractFSM()
	for _, pr := range f.Problems {
		c.Stuck(rule, "fsm-extraction:"+pr, "channels/channels_fsm.go", "the FSM table is not in the literal form the extractor understands: "+pr)
	}
	if len(f.Problems) > 0 {
		c.Degraded = "the FSM table of channels/channels_fsm.go could not be read completely"
	}
	c.Stats["fsm_events_with_rows"] = len(f.Events)
	c.Stats["fsm_rows"] = len(f.Rows)
	c.Stats["fsm_statuses"] = len(f.Statuses)
	c.Stats["fsm_event_codes"] = len(f.EventCodes)
	c.Floor(rule, len(f.Events), 33, "FSM events with rows")
	c.Floor(rule, len(f.Statuses), 19, "statuses")
	c.Floor(rule, len(f.Rows), 91, "FSM rows")
	return f
}

func init() {
	register("C03", "Exhaustive over the declared transition relation of channels/channels_fsm.go (every event × every status, read off the syntax tree with constants resolved by the type checker): bookkeeping events never change the status; rows into the F/R/Z-labelled statuses and into Completing are exactly those of the completion diamond (only-if), the diamond's joining rows exist (if), Finalizing is left towards Completing only by ResumeResponder/Complete; action effect sets (SSA stores) keep lifecycle events off counters/flags/vouchers and each bookkeeping event on its own field; in impl, Complete/BeginFinalizing and ResponderCompletes/ResponderBeginsFinalization are selected by the stated predicates (dominance facts). Not decided: that the dependency go-statemachine implements the lookup rule as modelled; run-time interleavings.",
		func(c *core.Ctx) {
			r := newR(c)
			f := fsmOrStuck(c, "C03.0")
			c.Assumption("go-statemachine semantics as stated in DESIGN §2 (lookup specific row, else FromAny row, else rejected; ToNoChange/ToJustRecord keep the status)")
			c03Bookkeeping(c, f)
			c03OnlyIf(c, f)
			c03If(c, f)
			c03Finalizing(c, f)
			c03Accessor(r)
			c03Effects(c, f)
			c03Impl(r)
		})
}

// C03.1: every event is classified; bookkeeping events have only
// nochange/record destinations, for every status (exhaustive).
func c03Bookkeeping(c *core.Ctx, f *core.FSM) {
	for _, ev := range f.Events {
		_, bk := bookkeepingEvents[ev]
		_, lc := lifecycleEvents[ev]
		if !bk && !lc && ev != "ResumeResponder" {
			c.Stuck("C03.1", "classify:"+ev, c.P.Pos(f.EventsVarPos), "event "+ev+" has transition rows but is not classified as bookkeeping or lifecycle; a reviewer must classify it")
			continue
		}
		if !bk && ev != "ResumeResponder" {
			continue
		}
		for _, st := range f.Statuses {
			row, ok := f.Lookup(ev, st)
			key := ev + "@" + st
			if !ok {
				c.Triv("C03.1", key, "", "rejected (no row)")
				continue
			}
			if ev == "ResumeResponder" && st == "Finalizing" {
				c.Check(row.Kind == "status" && row.To == "Completing", "C03.1", key, c.P.Pos(row.Pos), "release row Finalizing → Completing", "ResumeResponder in Finalizing must release to Completing, found "+row.String())
				continue
			}
			c.Check(row.Kind != "status", "C03.1", key, c.P.Pos(row.Pos), "keeps the status ("+row.Kind+")",
				fmt.Sprintf("bookkeeping event %s changes the lifecycle status in %s: %s", ev, st, row))
		}
	}
}

// C03.2: only-if direction, over every (event, status) pair.
func c03OnlyIf(c *core.Ctx, f *core.FSM) {
	for _, ev := range f.Events {
		for _, st := range f.Statuses {
			row, ok := f.Lookup(ev, st)
			if !ok || row.Kind != "status" {
				continue
			}
			to := row.To
			key := ev + "@" + st + "→" + to
			site := c.P.Pos(row.Pos)
			switch {
			case to == "Completing":
				ok := (ev == "FinishTransfer" && (labelR[st] || st == "AwaitingAcceptance")) ||
					(ev == "ResponderCompletes" && labelF[st]) ||
					ev == "Complete" ||
					(ev == "ResumeResponder" && st == "Finalizing")
				c.Check(ok, "C03.2", key, site, "row into Completing is one of the completion diamond's", "Completing is reachable by a row outside the completion diamond: "+row.String()+" (applies in "+st+")")
			case labelF[to] && labelZ[to]: // ResponderFinalizingTransferFinished
				ok := (ev == "FinishTransfer" && labelZ[st]) || (ev == "ResponderBeginsFinalization" && labelF[st])
				c.Check(ok, "C03.2", key, site, "joins F and Z", "status labelled F∧Z entered without both observations: "+row.String()+" (applies in "+st+")")
			case labelF[to]:
				c.Check(ev == "FinishTransfer", "C03.2", key, site, "F entered by FinishTransfer", "status labelled 'local transfer finished' entered by "+ev+" in "+st)
			case labelR[to]:
				c.Check(ev == "ResponderCompletes", "C03.2", key, site, "R entered by ResponderCompletes", "ResponderCompleted entered by "+ev+" in "+st)
			case labelZ[to]:
				c.Check(ev == "ResponderBeginsFinalization", "C03.2", key, site, "Z entered by ResponderBeginsFinalization", "ResponderFinalizing entered by "+ev+" in "+st)
			case to == "Finalizing":
				c.Check(ev == "BeginFinalizing", "C03.2", key, site, "Finalizing entered by BeginFinalizing", "Finalizing entered by "+ev+" in "+st)
			}
		}
	}
}

// C03.3: if direction — the joining rows of the diamond exist.
func c03If(c *core.Ctx, f *core.FSM) {
	want := []struct{ ev, from, to string }{
		{"FinishTransfer", "ResponderCompleted", "Completing"},
		{"ResponderCompletes", "TransferFinished", "Completing"},
		{"ResponderCompletes", "ResponderFinalizingTransferFinished", "Completing"},
		{"FinishTransfer", "AwaitingAcceptance", "Completing"},
		{"FinishTransfer", "ResponderFinalizing", "ResponderFinalizingTransferFinished"},
		{"ResponderBeginsFinalization", "TransferFinished", "ResponderFinalizingTransferFinished"},
		{"FinishTransfer", "Ongoing", "TransferFinished"},
		{"ResponderCompletes", "Ongoing", "ResponderCompleted"},
		{"ResponderBeginsFinalization", "Ongoing", "ResponderFinalizing"},
		{"Complete", "Ongoing", "Completing"},
		{"BeginFinalizing", "Ongoing", "Finalizing"},
		{"Complete", "Finalizing", "Completing"},
	}
	for _, w := range want {
		got, ok := f.Next(w.ev, w.from)
		key := w.ev + "@" + w.from
		site := ""
		if row, ok := f.Lookup(w.ev, w.from); ok {
			site = c.P.Pos(row.Pos)
		}
		c.Check(ok && got == w.to, "C03.3", key, site, "→ "+w.to, fmt.Sprintf("δ(%s, %s) must be %s but is %s (accepted=%v)", w.ev, w.from, w.to, got, ok))
	}
}

// C03.4: Finalizing is released only by ResumeResponder or Complete.
func c03Finalizing(c *core.Ctx, f *core.FSM) {
	for _, ev := range f.Events {
		to, ok := f.Next(ev, "Finalizing")
		if !ok || to != "Completing" {
			continue
		}
		row, _ := f.Lookup(ev, "Finalizing")
		c.Check(ev == "ResumeResponder" || ev == "Complete", "C03.4", ev+"@Finalizing", c.P.Pos(row.Pos), "release event", "Finalizing → Completing by "+ev+", which is neither a resume/validation release nor Complete")
	}
}

// C03.4b: a responder in Finalizing reports itself paused.
func c03Accessor(r *R) {
	fn := r.fn("C03.4", "channels", "channelState", "ResponderPaused")
	r.table("C03.4", fn, 0, []string{"c.ic.ResponderPaused", "Finalizing==c.ic.Status"}, func(a map[string]bool) string {
		return b2s(a["c.ic.ResponderPaused"] || a["Finalizing==c.ic.Status"])
	})
}

// C03.5: effect sets of the actions.
func c03Effects(c *core.Ctx, f *core.FSM) {
	for _, ev := range f.Events {
		fn := f.Action[ev]
		if fn == nil {
			c.Stuck("C03.5", "action:"+ev, "", "no action function resolved for "+ev)
			continue
		}
		eff := c.P.FieldEffects(fn, 0)
		site := c.P.Pos(fn.Pos())
		var bad []string
		for _, fld := range identityFields {
			if eff[fld] {
				bad = append(bad, fld)
			}
		}
		c.Check(len(bad) == 0, "C03.5", "identity:"+ev, site, "writes no identity/status field", "action of "+ev+" writes identity/status field(s) "+strings.Join(bad, ","))
		bad = nil
		own := ownField[ev]
		for _, fld := range accountingFields {
			if eff[fld] && fld != own {
				bad = append(bad, fld)
			}
		}
		if _, lc := lifecycleEvents[ev]; lc || own == "" {
			c.Check(len(bad) == 0, "C03.5", "lifecycle:"+ev, site, "touches no counter, pause flag, voucher log, limit", "action of "+ev+" writes "+strings.Join(bad, ",")+", which a lifecycle/notice event must not touch")
		} else {
			c.Check(len(bad) == 0 && eff[own], "C03.5", "own:"+ev, site, "writes only "+own, fmt.Sprintf("action of %s must write %s and no other accounting field; writes {%s}", ev, own, strings.Join(sortedKeys(eff), ",")))
		}
	}
}

// C03.6: selection of the completion events in impl.
func c03Impl(r *R) {
	occ := r.fn("C03.6", "impl", "manager", "OnChannelCompleted")
	if occ != nil {
		gb := "m.channels.GetByID(_,chid)#0"
		r.guardedCalls("C03.6", occ, false, "(*channels.Channels).BeginFinalizing", 1, "+"+gb+".RequiresFinalization()")
		r.guardedCalls("C03.6", occ, false, "(*channels.Channels).Complete", 1, "-"+gb+".RequiresFinalization()")
		for _, s := range r.sites(occ, false, "message.CompleteResponse") {
			r.argIs("C03.6", s, 2, gb+".RequiresFinalization()", "the paused flag of the Complete message")
			r.argIs("C03.6", s, 1, "true", "the accepted flag of the Complete message")
		}
	}
	orr := r.fn("C03.6", "impl", "manager", "OnResponseReceived")
	if orr != nil {
		r.guardedCalls("C03.6", orr, false, "(*channels.Channels).ResponderCompletes", 1, "+response.IsComplete()", "-response.IsPaused()")
		r.guardedCalls("C03.6", orr, false, "(*channels.Channels).ResponderBeginsFinalization", 1, "+response.IsComplete()", "+response.IsPaused()")
	}
	// the responder's own messages report its pause state as it is: the Complete /
	// voucher-result response sent by SendVoucherResult carries ResponderPaused()
	if sv := r.fn("C03.6", "impl", "manager", "SendVoucherResult"); sv != nil {
		if gb := r.one("C03.6", sv, "(*channels.Channels).GetByID"); gb != nil {
			st := r.v(gb) + "#0"
			n := 0
			for _, callee := range []string{"dyn:message.CompleteResponse", "dyn:message.VoucherResultResponse"} {
				for _, s := range r.sites(sv, false, callee) {
					n++
					r.argIs("C03.6", s, 2, st+".ResponderPaused()", "pause state announced with the voucher result")
					r.argIs("C03.6", s, 1, st+".Status().IsAccepted()", "accepted flag announced with the voucher result")
				}
			}
			r.c.Floor("C03.6", n, 2, "response constructors in SendVoucherResult")
		}
	}
}
