package rules

import (
	"os"
	"path/filepath"
	"sort"
	"strings"

	"dtcheck/internal/core"
)

// trustedDeps are the dependency versions whose semantics the rules were
// written against (DESIGN §2). A different version makes the run undecided
// ("model drift"): the rules may no longer describe what the library does.
var trustedDeps = map[string]string{
	"github.com/filecoin-project/go-statemachine":  "v1.0.2-0.20220322104818-27f8fbb86dfd",
	"github.com/filecoin-project/go-ds-versioning": "v0.1.2",
	"github.com/hannahhoward/go-pubsub":            "v0.0.0-20200423002714-8d62886cc36e",
	"github.com/ipfs/go-graphsync":                 "v0.18.0",
	"github.com/ipld/go-ipld-prime":                "v0.21.0",
	"github.com/whyrusleeping/cbor-gen":            "v0.3.1",
	"github.com/jpillora/backoff":                  "v1.0.0",
	"github.com/bep/debounce":                      "v1.2.0",
}

// CheckTrustedBase compares go.mod with the versions above.
func CheckTrustedBase(c *core.Ctx) {
	b, err := os.ReadFile(filepath.Join(c.P.Dir, "go.mod"))
	if err != nil {
		c.Stuck("trusted-base", "go.mod", "go.mod", "cannot read go.mod: "+err.Error())
		return
	}
	have := map[string]string{}
	for _, l := range strings.Split(string(b), "\n") {
		f := strings.Fields(strings.TrimSpace(l))
		if len(f) >= 2 && strings.Contains(f[0], "/") && strings.HasPrefix(f[1], "v") {
			have[f[0]] = f[1]
		}
		if len(f) >= 3 && f[0] == "require" {
			have[f[1]] = f[2]
		}
	}
	var names []string
	for n := range trustedDeps {
		names = append(names, n)
	}
	sort.Strings(names)
	var seen []string
	for _, n := range names {
		if have[n] != trustedDeps[n] {
			c.Stuck("trusted-base", "dependency:"+n, "go.mod", "model drift: the rules were written against "+n+" "+trustedDeps[n]+" but go.mod requires "+have[n]+"; the dependency semantics assumed in DESIGN §2 must be re-confirmed")
		} else {
			seen = append(seen, n+"@"+have[n])
		}
	}
	c.Stats["trusted_dependencies"] = seen
}

// ArchReload (thorough tier): load the production packages again for GOARCH=386
// and require the same files per package, so that no build-constrained file
// escapes the analysis.
func ArchReload(c *core.Ctx, repo string) {
	p2, err := core.Load(repo, c.P.Overlay, "386")
	if err != nil {
		c.Stuck("arch-reload", "GOARCH=386", "", "cannot load for GOARCH=386: "+err.Error())
		return
	}
	files := func(p *core.Prog) map[string]bool {
		out := map[string]bool{}
		for _, pk := range p.Pkgs {
			for _, f := range pk.CompiledGoFiles {
				rel, _ := filepath.Rel(p.Dir, f)
				out[rel] = true
			}
		}
		return out
	}
	a, b := files(c.P), files(p2)
	same := len(a) == len(b)
	for f := range a {
		if !b[f] {
			same = false
		}
	}
	if same {
		c.Triv("arch-reload", "GOARCH=386", "", "same files analysed for amd64 and 386")
	} else {
		c.Stuck("arch-reload", "GOARCH=386", "", "the set of source files differs between GOARCH=amd64 and GOARCH=386: build-constrained files are not all analysed")
	}
	c.Stats["files_analysed"] = len(a)
}
