package rules

import (
	"fmt"
	"go/types"
	"sort"
	"strings"

	"dtcheck/internal/core"

	"golang.org/x/tools/go/ssa"
)

// R bundles the context for rule code.
type R struct {
	c *core.Ctx
	p *core.Prog
	d *core.D
	// lifted call sites: a site found in a helper that only the anchor
	// function calls is judged in the anchor's terms (parameters substituted by
	// the arguments of the helper's single call site, caller facts added)
	lifted map[ssa.Instruction]*siteCtx
}

type siteCtx struct {
	subst map[*ssa.Parameter]string
	outer []core.Atom
	via   string
}

func newR(c *core.Ctx) *R {
	return &R{c: c, p: c.P, d: c.P.D(), lifted: map[ssa.Instruction]*siteCtx{}}
}

// dOf returns the descriptor context for an instruction (substituting the
// parameters of a helper it was lifted from).
func (r *R) dOf(ins ssa.Instruction) *core.D {
	if sc, ok := r.lifted[ins]; ok {
		d := r.p.D()
		d.Subst = sc.subst
		return d
	}
	return r.d
}

// atomsAt returns the guard atoms holding at an instruction, in the anchor
// function's terms.
func (r *R) atomsAt(ins ssa.Instruction) []core.Atom {
	sc, ok := r.lifted[ins]
	if !ok {
		return r.p.AtomsAtInstr(ins)
	}
	d := r.dOf(ins)
	out := append([]core.Atom{}, sc.outer...)
	for _, f := range r.p.Facts(ins.Parent())[ins.Block()] {
		out = append(out, d.NormAtom(f.Cond, f.Pol))
	}
	return out
}

// liftedSites searches the helpers of fn (static callees in production code
// that have exactly one call site in the whole program, up to two levels) for
// call sites of the callees, registering their context.
func (r *R) liftedSites(fn *ssa.Function, depth int, outer *siteCtx, want map[string]bool, deep bool) []ssa.CallInstruction {
	var out []ssa.CallInstruction
	for _, ci := range core.CallSites(fn) {
		if _, isGo := ci.(*ssa.Go); isGo && !deep {
			// (with deep, a goroutine started on a helper counts like a goroutine closure)
			continue
		}
		h := ci.Common().StaticCallee()
		if h == nil || !r.p.InProd(h) || len(h.Blocks) == 0 || h == fn || h.Parent() != nil {
			continue
		}
		n := 0
		for _, ss := range r.p.Callers(core.ShortFn(h)) {
			n += len(ss)
		}
		if n != 1 && !core.IsNewFunc(h) {
			// an existing helper with several callers has its own contract; a helper
			// introduced after the reference tree is judged at each call site
			continue
		}
		// context of the helper body
		d := r.p.D()
		if outer != nil {
			d.Subst = outer.subst
		}
		sc := &siteCtx{subst: map[*ssa.Parameter]string{}, via: core.ShortFn(h)}
		for i, q := range h.Params {
			if i < len(ci.Common().Args) {
				sc.subst[q] = d.Of(ci.Common().Args[i])
			}
		}
		if outer != nil {
			sc.outer = append(sc.outer, outer.outer...)
		}
		for _, f := range r.p.Facts(fn)[ci.Block()] {
			sc.outer = append(sc.outer, d.NormAtom(f.Cond, f.Pol))
		}
		for _, s2 := range core.CallSites(h) {
			if want[r.p.CalleeName(s2.Common())] {
				r.lifted[s2.(ssa.Instruction)] = sc
				out = append(out, s2)
			}
		}
		if depth > 1 {
			out = append(out, r.liftedSites(h, depth-1, sc, want, deep)...)
		}
	}
	return out
}

// fn resolves an anchor function; an unresolved anchor is undecided.
func (r *R) fn(rule, rel, recv, name string) *ssa.Function {
	f := r.p.Func(rel, recv, name)
	if f == nil || len(f.Blocks) == 0 {
		r.c.Stuck(rule, "anchor:"+fnKey(rel, recv, name), "", "anchor function no longer resolves (renamed, moved or deleted); the rule cannot be evaluated")
		return nil
	}
	if core.SignatureChanged(f) {
		r.c.Stuck(rule, "anchor-signature:"+fnKey(rel, recv, name), r.p.Pos(f.Pos()), "the anchor function's parameter list changed; rules written in terms of its parameters cannot be evaluated")
		return nil
	}
	return f
}

// fnI resolves an anchor that is a small private helper: when the helper no
// longer exists because its body was inlined into its callers, the functions
// that called it on the reference tree stand in for it (the rule is judged in
// each of them).
func (r *R) fnI(rule, rel, recv, name string) []*ssa.Function {
	if f := r.p.Func(rel, recv, name); f != nil && len(f.Blocks) > 0 {
		return []*ssa.Function{f}
	}
	var out []*ssa.Function
	for _, rf := range core.RefFuncs() {
		cs, _ := core.RefCallees(rf)
		for _, c := range cs {
			pkg := rel[strings.LastIndex(rel, "/")+1:]
			if pkg == "" {
				pkg = "datatransfer"
			}
			if recv == "" && c != pkg+"."+name {
				continue
			}
			if recv != "" && c != "(*"+pkg+"."+recv+")."+name && c != "("+pkg+"."+recv+")."+name {
				continue
			}
			for _, f := range r.p.Prod {
				if f.String() == rf && len(f.Blocks) > 0 {
					out = append(out, f)
				}
			}
		}
	}
	if len(out) == 0 {
		r.c.Stuck(rule, "anchor:"+fnKey(rel, recv, name), "", "anchor function no longer resolves (renamed, moved or deleted); the rule cannot be evaluated")
	}
	return out
}

// oneOf is one() for the first of several alternative callees that is called
// in fn.
func (r *R) oneOf(rule string, fn *ssa.Function, callees ...string) ssa.CallInstruction {
	if fn == nil {
		return nil
	}
	for _, c := range callees[:len(callees)-1] {
		if len(r.sites(fn, false, c)) > 0 {
			return r.one(rule, fn, c)
		}
	}
	return r.one(rule, fn, callees[len(callees)-1])
}

func fnKey(rel, recv, name string) string {
	if recv != "" {
		return rel + "." + recv + "." + name
	}
	return rel + "." + name
}

// sites returns the call sites in fn (closures included when deep) calling
// one of the callees.
func (r *R) sites(fn *ssa.Function, deep bool, callees ...string) []ssa.CallInstruction {
	if fn == nil {
		return nil
	}
	out := r.p.CallsTo(fn, deep, callees...)
	if len(out) == 0 {
		// the call may have been extracted into a helper only this function uses
		want := map[string]bool{}
		for _, c := range callees {
			want[c] = true
		}
		out = r.liftedSites(fn, 2, nil, want, deep)
	}
	return out
}

// siteKey names a call site by function + callee + ordinal (never by line).
func (r *R) siteKey(site ssa.CallInstruction) string {
	fn := site.Parent()
	name := r.p.CalleeName(site.Common())
	n := 0
	for _, ci := range core.CallSites(fn) {
		if ci == site {
			break
		}
		if r.p.CalleeName(ci.Common()) == name {
			n++
		}
	}
	k := core.ShortFn(fn) + "→" + name
	if n > 0 {
		k += fmt.Sprintf("#%d", n+1)
	}
	return k
}

// guarded checks that every listed atom ("+a"/"-a") holds at the site by
// dominance; reports one obligation.
func (r *R) guarded(rule string, site ssa.Instruction, key string, atoms ...string) bool {
	have := r.atomsAt(site)
	var missing []string
	for _, a := range atoms {
		if !core.HasAtom(have, core.ParseAtom(a)) {
			missing = append(missing, a)
		}
	}
	if len(missing) == 0 {
		r.c.OK(rule, key, r.p.InstrPos(site), "dominated by "+strings.Join(atoms, " ∧ "))
		return true
	}
	r.c.Bad(rule, key, r.p.InstrPos(site), fmt.Sprintf("not guarded by %s; facts holding here: {%s}", strings.Join(missing, " ∧ "), strings.Join(core.AtomStrings(have), "  ")))
	return false
}

// guardedCalls requires that fn has at least min call sites to each callee and
// that every one is guarded by atoms.
func (r *R) guardedCalls(rule string, fn *ssa.Function, deep bool, callee string, min int, atoms ...string) []ssa.CallInstruction {
	if fn == nil {
		return nil
	}
	ss := r.sites(fn, deep, callee)
	if len(ss) < min {
		// The protected effect disappeared from its anchor function.
		r.c.Stuck(rule, core.ShortFn(fn)+"→"+callee, r.p.Pos(fn.Pos()),
			fmt.Sprintf("expected at least %d call(s) to %s in %s, found %d: the anchor moved; rule cannot be evaluated", min, callee, core.ShortFn(fn), len(ss)))
		return ss
	}
	for _, s := range ss {
		r.guarded(rule, s, r.siteKey(s), atoms...)
	}
	return ss
}

// argIs checks that the i-th source-level argument of the call has the
// expected descriptor.
func (r *R) argIs(rule string, site ssa.CallInstruction, i int, want string, what string) bool {
	if sc := site.Common().StaticCallee(); sc != nil && core.SignatureChanged(core.Unwrap(sc)) {
		r.c.Stuck(rule, r.siteKey(site)+fmt.Sprintf("/arg%d", i), r.p.InstrPos(site), "the callee's parameter list changed; the argument position the rule refers to no longer means the same")
		return false
	}
	v := core.Arg(site.Common(), i)
	got := "<missing>"
	if v != nil {
		got = r.dOf(site.(ssa.Instruction)).Of(v)
	}
	key := r.siteKey(site) + fmt.Sprintf("/arg%d", i)
	return r.c.Check(got == want, rule, key, r.p.InstrPos(site), what+" is "+want, fmt.Sprintf("%s should be %s but is %s", what, want, got))
}

// onlyCallers checks that callee is called only from the allowed top-level
// functions (closures are attributed to the function defining them).
func (r *R) onlyCallers(rule, callee string, min int, allowed ...string) {
	al := map[string]bool{}
	for _, a := range allowed {
		al[a] = true
	}
	callers := r.p.Callers(callee)
	total := 0
	names := map[string][]ssa.CallInstruction{}
	for fn, ss := range callers {
		n := core.ShortFn(core.TopLevel(fn))
		names[n] = append(names[n], ss...)
		total += len(ss)
	}
	if total < min {
		r.c.Stuck(rule, "callers:"+callee, "", fmt.Sprintf("found %d call sites of %s, expected at least %d: anchor does not resolve", total, callee, min))
		return
	}
	var ns []string
	for n := range names {
		ns = append(ns, n)
	}
	sort.Strings(ns)
	for _, n := range ns {
		key := callee + "←" + n
		site := r.p.InstrPos(names[n][0])
		if al[n] {
			r.c.OK(rule, key, site, "caller is in the confirmed set")
		} else if via := r.singleCallerChain(n, al, 3); via != "" {
			r.c.OK(rule, key, site, "called from a helper used only by a confirmed caller ("+via+")")
		} else if via := r.newHelperOfAllowed(n, al, 3); via != "" {
			r.c.OK(rule, key, site, "called from a new helper reached only from confirmed callers ("+via+")")
		} else if a := r.inlinedAway(n, callee, al); a != "" {
			r.c.OK(rule, key, site, "confirmed caller "+a+" was inlined into its caller "+n)
		} else {
			r.c.Bad(rule, key, site, fmt.Sprintf("new caller of %s: %s is not in the confirmed set {%s}; if this caller is legitimate a reviewer must confirm it and add it to the table", callee, n, strings.Join(allowed, ", ")))
		}
	}
}

// pathsOf enumerates paths; incomplete enumeration is undecided.
func (r *R) pathsOf(rule string, fn *ssa.Function) []*core.Path {
	if fn == nil {
		return nil
	}
	ps, ok := r.p.Paths(fn)
	if !ok {
		r.c.Stuck(rule, "paths:"+core.ShortFn(fn), r.p.Pos(fn.Pos()), "path enumeration exceeded its bound")
		return nil
	}
	return ps
}

// pathsThroughHelpers is pathsOf with the named helpers (when they exist)
// walked through as if their bodies were written at the call site, so that a
// rule reads the same whether or not the helper is there.
func (r *R) pathsThroughHelpers(rule string, fn *ssa.Function, helpers ...*ssa.Function) []*core.Path {
	r.p.ForceInline = map[*ssa.Function]bool{}
	for _, h := range helpers {
		if h != nil {
			r.p.ForceInline[h] = true
		}
	}
	defer func() { r.p.ForceInline = nil }()
	return r.pathsOf(rule, fn)
}

func join(ss []string) string { return strings.Join(ss, ", ") }

func sortedKeys(m map[string]bool) []string {
	var out []string
	for k := range m {
		out = append(out, k)
	}
	sort.Strings(out)
	return out
}

func inList(s string, l []string) bool {
	for _, x := range l {
		if x == s {
			return true
		}
	}
	return false
}

// one returns the unique call site of callee in fn (closures excluded), or
// records the anchor as unresolved.
func (r *R) one(rule string, fn *ssa.Function, callee string) ssa.CallInstruction {
	if fn == nil {
		return nil
	}
	ss := r.sites(fn, false, callee)
	if len(ss) != 1 {
		r.c.Stuck(rule, "anchor:"+core.ShortFn(fn)+"→"+callee, r.p.Pos(fn.Pos()), fmt.Sprintf("expected exactly one call to %s in %s, found %d", callee, core.ShortFn(fn), len(ss)))
		return nil
	}
	if sc := ss[0].Common().StaticCallee(); sc != nil && core.SignatureChanged(core.Unwrap(sc)) {
		r.c.Stuck(rule, "anchor-signature:"+core.ShortFn(fn)+"→"+callee, r.p.InstrPos(ss[0]), "the parameters or results of "+callee+" changed; rules written in terms of them cannot be evaluated")
		return nil
	}
	return ss[0]
}

// v is the descriptor of the value produced by a call site.
func (r *R) v(site ssa.CallInstruction) string {
	if site == nil {
		return "<unresolved>"
	}
	if val := site.Value(); val != nil {
		return r.dOf(site.(ssa.Instruction)).Of(val)
	}
	return "<novalue>"
}

// pathsThrough returns the paths of fn that execute the instruction's block.
func pathsThrough(paths []*core.Path, ins ssa.Instruction) []*core.Path {
	var out []*core.Path
	for _, pt := range paths {
		if pt.PassesThrough(ins.Block()) {
			out = append(out, pt)
		}
	}
	return out
}

// evOf finds the event for a call instruction on a path.
func evOf(pt *core.Path, ins ssa.Instruction) (core.Ev, bool) {
	for _, e := range pt.Evs {
		if e.Instr == ins {
			return e, true
		}
	}
	return core.Ev{}, false
}

// emitters checks the who-may-call table of an FSM event wrapper.
func (r *R) emitters(rule, method string, allowed ...string) {
	r.onlyCallers(rule, "(*channels.Channels)."+method, 1, allowed...)
}

// table checks a small pure function against a decision table (DESIGN E6):
// for every total assignment of the listed atoms, every path consistent with
// it must return want(assignment). Return values that are themselves one of
// the atoms (or its negation) are evaluated under the assignment; for
// non-boolean functions want returns the expected descriptor of result ri.
// A path that branches on a condition outside the listed atoms is reported.
func (r *R) table(rule string, fn *ssa.Function, ri int, atoms []string, want func(a map[string]bool) string) {
	if fn == nil {
		return
	}
	paths := r.pathsOf(rule, fn)
	if paths == nil {
		return
	}
	fname := core.ShortFn(fn)
	known := map[string]bool{}
	for _, a := range atoms {
		known[a] = true
	}
	for i, pt := range paths {
		for _, a := range pt.Atoms {
			if !known[a.S] {
				r.c.Bad(rule, fmt.Sprintf("%s/unexpected-condition#%d", fname, i+1), r.p.Pos(fn.Pos()),
					fmt.Sprintf("%s branches on %q, which is not one of the conditions the property allows it to depend on {%s}", fname, a.S, strings.Join(atoms, ", ")))
				return
			}
		}
		if pt.End != "return" {
			r.c.Bad(rule, fmt.Sprintf("%s/noreturn#%d", fname, i+1), r.p.Pos(fn.Pos()), fname+" has a path that does not return ("+pt.End+")")
			return
		}
	}
	n := 1 << len(atoms)
	for bits := 0; bits < n; bits++ {
		asg := map[string]bool{}
		var label []string
		for j, a := range atoms {
			asg[a] = bits&(1<<j) != 0
			if asg[a] {
				label = append(label, "+"+a)
			} else {
				label = append(label, "-"+a)
			}
		}
		exp := want(asg)
		if exp == "<infeasible>" {
			continue
		}
		key := fname + "/" + strings.Join(label, " ")
		matched := 0
		ok := true
		detail := ""
		for _, pt := range paths {
			cons := true
			for _, a := range pt.Atoms {
				if asg[a.S] != a.Pol {
					cons = false
					break
				}
			}
			if !cons {
				continue
			}
			matched++
			got := "<none>"
			if pt.Ret != nil && ri < len(pt.Ret.Results) {
				rv := pt.Ret.Results[ri]
				got = pt.Desc(rv)
				if got != "true" && got != "false" {
					at := pt.D.NormAtom(rv, true)
					if v, isAtom := asg[at.S]; isAtom {
						if v == at.Pol {
							got = "true"
						} else {
							got = "false"
						}
					}
				}
			}
			if got != exp {
				ok = false
				detail = fmt.Sprintf("under {%s} %s returns %s, the property requires %s", strings.Join(label, " "), fname, got, exp)
			}
		}
		if matched == 0 {
			r.c.Bad(rule, key, r.p.Pos(fn.Pos()), "no path of "+fname+" covers this case")
			continue
		}
		r.c.Check(ok, rule, key, r.p.Pos(fn.Pos()), "returns "+exp, detail)
	}
}

func b2s(b bool) string {
	if b {
		return "true"
	}
	return "false"
}

// litStores returns the stores to the fields of a struct built in an alloc.
func litStores(a *ssa.Alloc) map[string][]*ssa.Store {
	out := map[string][]*ssa.Store{}
	var walk func(base ssa.Value, prefix string)
	walk = func(base ssa.Value, prefix string) {
		for _, ref := range *base.Referrers() {
			if fa, ok := ref.(*ssa.FieldAddr); ok && fa.X == base {
				_, name := core.FieldOwner(fa)
				name = prefix + name
				for _, rr := range *fa.Referrers() {
					if st, ok := rr.(*ssa.Store); ok && st.Addr == fa {
						out[name] = append(out[name], st)
					}
				}
				walk(fa, name+".")
			}
		}
	}
	walk(a, "")
	return out
}

// retAlloc finds the struct allocation returned as result ri on a path
// (through interface conversion).
func retAlloc(pt *core.Path, ri int) *ssa.Alloc {
	if pt.Ret == nil || ri >= len(pt.Ret.Results) {
		return nil
	}
	v := pt.Ret.Results[ri]
	for i := 0; i < 6; i++ {
		switch x := v.(type) {
		case *ssa.MakeInterface:
			v = x.X
		case *ssa.ChangeInterface:
			v = x.X
		case *ssa.Phi:
			if r := pt.D.PhiVal(x); r != nil {
				v = r
			} else {
				return nil
			}
		case *ssa.Alloc:
			return x
		default:
			return nil
		}
	}
	return nil
}

// retFields gives, for a path returning a freshly built struct, the
// descriptor (on that path) of the value stored to each field. Fields never
// stored are absent (zero value).
func retFields(pt *core.Path, ri int) (map[string]string, map[string]ssa.Value, bool) {
	a := retAlloc(pt, ri)
	if a == nil {
		return nil, nil, false
	}
	out := map[string]string{}
	vals := map[string]ssa.Value{}
	for name, sts := range litStores(a) {
		for _, st := range sts {
			if pt.PassesThrough(st.Block()) {
				out[name] = pt.Desc(st.Val)
				vals[name] = st.Val
			}
		}
	}
	return out, vals, true
}

type ssaValue = ssa.Value

// msgType returns the descriptor of uint64(types.<name>) — the wire number of
// a message type constant — or "" when it does not resolve.
func (r *R) msgType(name string) string {
	pk := r.p.ByRel["message/types"]
	if pk == nil {
		return ""
	}
	c, ok := pk.Types.Scope().Lookup(name).(*types.Const)
	if !ok {
		return ""
	}
	return c.Val().ExactString() + ":uint64"
}

type ssaFunction = ssa.Function

type ssaUnOp = ssa.UnOp
type ssaStore = ssa.Store
type ssaCall = ssa.Call

// fromGetValue: v is (a field of) the result of a cache getValue call.
func fromGetValue(v ssa.Value) bool {
	for i := 0; i < 6 && v != nil; i++ {
		switch x := v.(type) {
		case *ssa.Extract:
			if c, ok := x.Tuple.(*ssa.Call); ok {
				if sc := c.Common().StaticCallee(); sc != nil && sc.Name() == "getValue" {
					return true
				}
			}
			return false
		case *ssa.Field:
			v = x.X
		case *ssa.FieldAddr:
			v = x.X
		case *ssa.UnOp:
			v = x.X
		default:
			return false
		}
	}
	return false
}

// isPtrToInt: v has type *int64 / *uint64 (a cache word), not **T.
func isPtrToInt(v ssa.Value) bool {
	pt, ok := v.Type().Underlying().(*types.Pointer)
	if !ok {
		return false
	}
	b, ok := pt.Elem().Underlying().(*types.Basic)
	return ok && b.Info()&types.IsInteger != 0
}

// singleCallerChain: name is a function with exactly one call site in the
// program, and following such single call sites upwards reaches an allowed
// function within depth steps. Returns the chain, or "".
func (r *R) singleCallerChain(name string, allowed map[string]bool, depth int) string {
	chain := name
	cur := name
	for i := 0; i < depth; i++ {
		callers := r.p.Callers(cur)
		n := 0
		var up string
		for fn, ss := range callers {
			n += len(ss)
			up = core.ShortFn(core.TopLevel(fn))
		}
		if n != 1 {
			return ""
		}
		chain = up + " → " + chain
		if allowed[up] {
			return chain
		}
		cur = up
	}
	return ""
}

// newHelperOfAllowed: name is a function that did not exist on the reference
// tree and every chain of callers upwards reaches an allowed function (through
// new functions only) within depth steps.
func (r *R) newHelperOfAllowed(name string, allowed map[string]bool, depth int) string {
	var fn *ssa.Function
	for _, f := range r.p.Prod {
		if core.ShortFn(f) == name {
			fn = f
		}
	}
	if fn == nil || !core.IsNewFunc(fn) || depth == 0 {
		return ""
	}
	callers := r.p.Callers(name)
	if len(callers) == 0 {
		return ""
	}
	var via []string
	for c := range callers {
		up := core.ShortFn(core.TopLevel(c))
		if allowed[up] {
			via = append(via, up)
			continue
		}
		if v := r.newHelperOfAllowed(up, allowed, depth-1); v != "" {
			via = append(via, v)
			continue
		}
		return ""
	}
	sort.Strings(via)
	return strings.Join(via, ", ") + " → " + name
}

// inlinedAway: some allowed caller A of callee no longer exists (or no longer
// calls callee) and, on the reference tree, n called A — A's body was inlined
// into n.
func (r *R) inlinedAway(n, callee string, allowed map[string]bool) string {
	cur := map[string]bool{}
	for fn := range r.p.Callers(callee) {
		cur[core.ShortFn(core.TopLevel(fn))] = true
	}
	for a := range allowed {
		if cur[a] {
			continue // still calls it itself
		}
		// did n call a on the reference tree?
		for _, f := range core.RefFuncs() {
			if core.Short(f) != n {
				continue
			}
			cs, _ := core.RefCallees(f)
			for _, c := range cs {
				if c == a {
					return a
				}
			}
		}
	}
	return ""
}

// truth evaluates a boolean descriptor on a path: a value the path has
// branched on is the constant that branch established.
func truth(pt *core.Path, desc string) string {
	if pt.Has("+" + desc) {
		return "true"
	}
	if pt.Has("-" + desc) {
		return "false"
	}
	return desc
}

// guardedOnPaths is guardedCalls decided per path: on every enumerated path of
// fn, each call to callee must come after the atoms need(path, event) returns
// (rendered with the path's phi resolution). One obligation per call site.
func (r *R) guardedOnPaths(rule string, fn *ssa.Function, paths []*core.Path, callee string, min int, need func(pt *core.Path, ev core.Ev) []string) {
	if fn == nil || paths == nil {
		return
	}
	type res struct {
		site   ssa.Instruction
		detail string
		n      int
	}
	by := map[string]*res{}
	var keys []string
	for _, pt := range paths {
		for _, ev := range pt.Evs {
			if ev.Kind != "call" || r.p.CalleeName(ev.C) != callee {
				continue
			}
			ci, ok := ev.Instr.(ssa.CallInstruction)
			if !ok {
				continue
			}
			k := r.siteKey(ci)
			x := by[k]
			if x == nil {
				x = &res{site: ev.Instr}
				by[k] = x
				keys = append(keys, k)
			}
			x.n++
			var missing []string
			for _, a := range need(pt, ev) {
				if !pt.HasBefore(ev.Instr, a) {
					missing = append(missing, a)
				}
			}
			if len(missing) > 0 && x.detail == "" {
				x.detail = fmt.Sprintf("reached without {%s} on %s", strings.Join(missing, ", "), pt.Describe())
			}
		}
	}
	if len(keys) < min {
		r.c.Stuck(rule, core.ShortFn(fn)+"→"+callee, r.p.Pos(fn.Pos()),
			fmt.Sprintf("expected at least %d call(s) to %s on the paths of %s, found %d: the anchor moved; rule cannot be evaluated", min, callee, core.ShortFn(fn), len(keys)))
		return
	}
	sort.Strings(keys)
	for _, k := range keys {
		x := by[k]
		r.c.Check(x.detail == "", rule, k, r.p.InstrPos(x.site), fmt.Sprintf("guarded on all %d paths reaching it", x.n), x.detail)
	}
}

// effectTable decides which of the listed effects (calls) a function performs,
// as a function of the listed conditions: the function may branch on nothing
// else (except the outcome of an effect listed in abortOn, after which the
// remaining effects may be skipped), and for every assignment of the conditions
// consistent with a path, the effects on that path are exactly want(assignment).
func (r *R) effectTable(rule string, fn *ssa.Function, atoms []string, effects map[string]string, abortOn []string, want func(a map[string]bool) []string) {
	if fn == nil {
		return
	}
	paths := r.pathsOf(rule, fn)
	if paths == nil {
		return
	}
	fname := core.ShortFn(fn)
	known := map[string]bool{}
	for _, a := range atoms {
		known[a] = true
	}
	type verdict struct {
		ok     bool
		detail string
		n      int
	}
	byCase := map[string]*verdict{}
	var caseKeys []string
	for i, pt := range paths {
		if pt.End != "return" {
			continue
		}
		aborted := false
		for _, a := range pt.Atoms {
			if known[a.S] {
				continue
			}
			isAbort := false
			for _, pre := range abortOn {
				if strings.HasPrefix(a.S, pre) && strings.HasSuffix(a.S, "==nil") {
					isAbort = true
					if !a.Pol {
						aborted = true
					}
				}
			}
			if !isAbort {
				r.c.Bad(rule, fmt.Sprintf("%s/unexpected-condition#%d", fname, i+1), r.p.Pos(fn.Pos()),
					fmt.Sprintf("%s decides what to do on %q, which is not one of the conditions the property lets it depend on {%s}", fname, a.S, strings.Join(atoms, ", ")))
				return
			}
		}
		var got []string
		for _, ev := range pt.Evs {
			if lbl, ok := effects[r.p.CalleeName(ev.C)]; ok {
				got = append(got, lbl)
			}
		}
		sort.Strings(got)
		n := 1 << len(atoms)
		for bits := 0; bits < n; bits++ {
			asg := map[string]bool{}
			var label []string
			cons := true
			for j, a := range atoms {
				asg[a] = bits&(1<<j) != 0
				if asg[a] {
					label = append(label, "+"+a)
				} else {
					label = append(label, "-"+a)
				}
			}
			for _, a := range pt.Atoms {
				if v, ok := asg[a.S]; ok && v != a.Pol {
					cons = false
				}
			}
			if !cons {
				continue
			}
			exp := append([]string{}, want(asg)...)
			sort.Strings(exp)
			k := strings.Join(label, " ")
			v := byCase[k]
			if v == nil {
				v = &verdict{ok: true}
				byCase[k] = v
				caseKeys = append(caseKeys, k)
			}
			v.n++
			okc := strings.Join(got, ",") == strings.Join(exp, ",")
			if aborted {
				// an effect failed: what came before it must still be expected
				okc = true
				es := map[string]bool{}
				for _, e := range exp {
					es[e] = true
				}
				for _, g := range got {
					if !es[g] {
						okc = false
					}
				}
			}
			if !okc && v.ok {
				v.ok = false
				v.detail = fmt.Sprintf("under {%s} %s does [%s], the property requires [%s]", k, fname, strings.Join(got, ","), strings.Join(exp, ","))
			}
		}
	}
	sort.Strings(caseKeys)
	for _, k := range caseKeys {
		v := byCase[k]
		r.c.Check(v.ok, rule, fname+"/effects/"+k, r.p.Pos(fn.Pos()), fmt.Sprintf("effects as required on %d path(s)", v.n), v.detail)
	}
	r.c.Floor(rule, len(caseKeys), 1<<len(atoms)/2, "decided cases of "+fname)
}
