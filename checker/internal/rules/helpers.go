package rules

import (
	"fmt"
	"sort"
	"strings"

	"dtcheck/internal/core"

	"golang.org/x/tools/go/ssa"
)

// R bundles the context for rule code.
type R struct {
	c *core.Ctx
	p *core.Prog
	d *core.D
}

func newR(c *core.Ctx) *R { return &R{c: c, p: c.P, d: c.P.D()} }

// fn resolves an anchor function; an unresolved anchor is undecided.
func (r *R) fn(rule, rel, recv, name string) *ssa.Function {
	f := r.p.Func(rel, recv, name)
	if f == nil || len(f.Blocks) == 0 {
		r.c.Stuck(rule, "anchor:"+fnKey(rel, recv, name), "", "anchor function no longer resolves (renamed, moved or deleted); the rule cannot be evaluated")
		return nil
	}
	return f
}

func fnKey(rel, recv, name string) string {
	if recv != "" {
		return rel + "." + recv + "." + name
	}
	return rel + "." + name
}

// sites returns the call sites in fn (closures included when deep) calling
// one of the callees.
func (r *R) sites(fn *ssa.Function, deep bool, callees ...string) []ssa.CallInstruction {
	if fn == nil {
		return nil
	}
	return r.p.CallsTo(fn, deep, callees...)
}

// siteKey names a call site by function + callee + ordinal (never by line).
func (r *R) siteKey(site ssa.CallInstruction) string {
	fn := site.Parent()
	name := r.p.CalleeName(site.Common())
	n := 0
	for _, ci := range core.CallSites(fn) {
		if ci == site {
			break
		}
		if r.p.CalleeName(ci.Common()) == name {
			n++
		}
	}
	k := core.ShortFn(fn) + "→" + name
	if n > 0 {
		k += fmt.Sprintf("#%d", n+1)
	}
	return k
}

// guarded checks that every listed atom ("+a"/"-a") holds at the site by
// dominance; reports one obligation.
func (r *R) guarded(rule string, site ssa.Instruction, key string, atoms ...string) bool {
	have := r.p.AtomsAtInstr(site)
	var missing []string
	for _, a := range atoms {
		if !core.HasAtom(have, core.ParseAtom(a)) {
			missing = append(missing, a)
		}
	}
	if len(missing) == 0 {
		r.c.OK(rule, key, r.p.InstrPos(site), "dominated by "+strings.Join(atoms, " ∧ "))
		return true
	}
	r.c.Bad(rule, key, r.p.InstrPos(site), fmt.Sprintf("not guarded by %s; facts holding here: {%s}", strings.Join(missing, " ∧ "), strings.Join(core.AtomStrings(have), "  ")))
	return false
}

// guardedCalls requires that fn has at least min call sites to each callee and
// that every one is guarded by atoms.
func (r *R) guardedCalls(rule string, fn *ssa.Function, deep bool, callee string, min int, atoms ...string) []ssa.CallInstruction {
	if fn == nil {
		return nil
	}
	ss := r.sites(fn, deep, callee)
	if len(ss) < min {
		// The protected effect disappeared from its anchor function.
		r.c.Stuck(rule, core.ShortFn(fn)+"→"+callee, r.p.Pos(fn.Pos()),
			fmt.Sprintf("expected at least %d call(s) to %s in %s, found %d: the anchor moved; rule cannot be evaluated", min, callee, core.ShortFn(fn), len(ss)))
		return ss
	}
	for _, s := range ss {
		r.guarded(rule, s, r.siteKey(s), atoms...)
	}
	return ss
}

// argIs checks that the i-th source-level argument of the call has the
// expected descriptor.
func (r *R) argIs(rule string, site ssa.CallInstruction, i int, want string, what string) bool {
	v := core.Arg(site.Common(), i)
	got := "<missing>"
	if v != nil {
		got = r.d.Of(v)
	}
	key := r.siteKey(site) + fmt.Sprintf("/arg%d", i)
	return r.c.Check(got == want, rule, key, r.p.InstrPos(site), what+" is "+want, fmt.Sprintf("%s should be %s but is %s", what, want, got))
}

// onlyCallers checks that callee is called only from the allowed top-level
// functions (closures are attributed to the function defining them).
func (r *R) onlyCallers(rule, callee string, min int, allowed ...string) {
	al := map[string]bool{}
	for _, a := range allowed {
		al[a] = true
	}
	callers := r.p.Callers(callee)
	total := 0
	names := map[string][]ssa.CallInstruction{}
	for fn, ss := range callers {
		n := core.ShortFn(core.TopLevel(fn))
		names[n] = append(names[n], ss...)
		total += len(ss)
	}
	if total < min {
		r.c.Stuck(rule, "callers:"+callee, "", fmt.Sprintf("found %d call sites of %s, expected at least %d: anchor does not resolve", total, callee, min))
		return
	}
	var ns []string
	for n := range names {
		ns = append(ns, n)
	}
	sort.Strings(ns)
	for _, n := range ns {
		key := callee + "←" + n
		site := r.p.InstrPos(names[n][0])
		if al[n] {
			r.c.OK(rule, key, site, "caller is in the confirmed set")
		} else {
			r.c.Bad(rule, key, site, fmt.Sprintf("new caller of %s: %s is not in the confirmed set {%s}; if this caller is legitimate a reviewer must confirm it and add it to the table", callee, n, strings.Join(allowed, ", ")))
		}
	}
}

// pathsOf enumerates paths; incomplete enumeration is undecided.
func (r *R) pathsOf(rule string, fn *ssa.Function) []*core.Path {
	if fn == nil {
		return nil
	}
	ps, ok := r.p.Paths(fn)
	if !ok {
		r.c.Stuck(rule, "paths:"+core.ShortFn(fn), r.p.Pos(fn.Pos()), "path enumeration exceeded its bound")
		return nil
	}
	return ps
}

func join(ss []string) string { return strings.Join(ss, ", ") }

func sortedKeys(m map[string]bool) []string {
	var out []string
	for k := range m {
		out = append(out, k)
	}
	sort.Strings(out)
	return out
}

func inList(s string, l []string) bool {
	for _, x := range l {
		if x == s {
			return true
		}
	}
	return false
}
