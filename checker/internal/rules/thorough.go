package rules

import (
	"encoding/json"
	"fmt"
	"os"
	"os/exec"
	"path/filepath"
	"sort"
	"strings"
	"sync"

	"dtcheck/internal/core"
)

// Mutant is one self-test variant: a single edit of a production file that
// still compiles and passes the repository's tests but breaks the property;
// the rule named in Expect must report it.
type Mutant struct {
	ID      string `json:"id"`
	File    string `json:"file"`
	Find    string `json:"find"`
	Replace string `json:"replace"`
	Expect  string `json:"expect"` // rule id prefix that must fire, e.g. "C03.1"
	Why     string `json:"why"`
	Source  string `json:"source,omitempty"` // calibration | design | seeded/<id>
	// More: further edits of the same file, applied after Find/Replace
	// All: replace every occurrence of Find (renames); default: exactly one
	All  bool `json:"all,omitempty"`
	More []struct {
		File    string `json:"file,omitempty"` // another file of the repository (default: File)
		Find    string `json:"find"`
		Replace string `json:"replace"`
	} `json:"more,omitempty"`
}

type mutantResult struct {
	Mutant   string   `json:"mutant"`
	Expect   string   `json:"expect"`
	Status   string   `json:"status"` // detected | missed | stale | error
	Reported []string `json:"reported,omitempty"`
}

// Thorough runs the mutant self-test of the property: each mutant is applied
// to the *current* content of its file in memory (overlay) and the property's
// rules are re-run in a subprocess. A mutant that is not reported means the
// rule is dead (the check fails, exit 2); a mutant whose anchor text no
// longer occurs is stale (warning only).
func Thorough(c *core.Ctx, repo, verif string) {
	path := filepath.Join(verif, "checker", "mutants", c.Prop+".json")
	b, err := os.ReadFile(path)
	if err != nil {
		c.Note("no mutant file %s: %v", path, err)
		return
	}
	var ms []Mutant
	if err := json.Unmarshal(b, &ms); err != nil {
		c.Stuck("selftest", "mutants-file", path, "cannot parse: "+err.Error())
		return
	}
	exe, _ := os.Executable()
	tmp, err := os.MkdirTemp("", "dtcheck-mut-")
	if err != nil {
		c.Stuck("selftest", "tmpdir", "", err.Error())
		return
	}
	defer os.RemoveAll(tmp)
	// obligations already violated on the unmodified tree (known findings): a
	// variant counts as detected only through an obligation that is new
	baseline := map[string]bool{}
	for _, o := range c.Obs {
		if o.Verdict == "violated" {
			baseline[o.Rule+" "+o.Key] = true
		}
	}
	results := make([]mutantResult, len(ms))
	sem := make(chan struct{}, 4)
	var wg sync.WaitGroup
	for i, m := range ms {
		wg.Add(1)
		go func(i int, m Mutant) {
			defer wg.Done()
			sem <- struct{}{}
			defer func() { <-sem }()
			res := mutantResult{Mutant: m.ID, Expect: m.Expect}
			src, err := os.ReadFile(filepath.Join(repo, m.File))
			if err != nil {
				res.Status = "stale"
				results[i] = res
				return
			}
			if n := strings.Count(string(src), m.Find); n != 1 && !(m.All && n > 1) {
				res.Status = "stale"
				results[i] = res
				return
			}
			mods := map[string]string{m.File: strings.Replace(string(src), m.Find, m.Replace, -1)}
			order := []string{m.File}
			stale := false
			for _, e := range m.More {
				f := e.File
				if f == "" {
					f = m.File
				}
				if _, ok := mods[f]; !ok {
					b, err := os.ReadFile(filepath.Join(repo, f))
					if err != nil {
						stale = true
						break
					}
					mods[f] = string(b)
					order = append(order, f)
				}
				if strings.Count(mods[f], e.Find) != 1 {
					stale = true
					break
				}
				mods[f] = strings.Replace(mods[f], e.Find, e.Replace, 1)
			}
			if stale {
				res.Status = "stale"
				results[i] = res
				return
			}
			var ov []string
			for j, f := range order {
				mf := filepath.Join(tmp, fmt.Sprintf("m%d_%d.go", i, j))
				os.WriteFile(mf, []byte(mods[f]), 0o644)
				ov = append(ov, f+"="+mf)
			}
			cmd := exec.Command(exe, "-property", c.Prop, "-tier", "quick", "-repo", repo, "-verif", verif, "-mutant-run", "-overlay", strings.Join(ov, ","))
			out, err := cmd.CombinedOutput()
			if !strings.Contains(string(out), "MUTANT-DONE") {
				res.Status = "error"
				o := string(out)
				if len(o) > 400 {
					o = o[:400]
				}
				res.Reported = []string{fmt.Sprintf("%v: %s", err, o)}
				results[i] = res
				return
			}
			res.Status = "missed"
			if m.Expect == "" {
				// neutral variant: a behaviour-preserving edit; nothing new may be reported
				res.Status = "quiet"
				for _, l := range strings.Split(string(out), "\n") {
					f := strings.Split(l, "\t")
					if len(f) >= 4 && f[0] == "MUTANT-OB" && !baseline[f[2]+" "+f[3]] {
						res.Status = "false-alarm"
						res.Reported = append(res.Reported, f[1]+" "+f[2]+" "+f[3])
					}
				}
				results[i] = res
				return
			}
			for _, l := range strings.Split(string(out), "\n") {
				f := strings.Split(l, "\t")
				if len(f) >= 4 && f[0] == "MUTANT-OB" {
					res.Reported = append(res.Reported, f[1]+" "+f[2]+" "+f[3])
					if f[1] == "violated" && !baseline[f[2]+" "+f[3]] && (f[2] == m.Expect || strings.HasPrefix(f[2], m.Expect+".") || strings.HasPrefix(f[2], m.Expect)) {
						res.Status = "detected"
					}
				}
			}
			if len(res.Reported) > 6 {
				res.Reported = append(res.Reported[:6], fmt.Sprintf("… %d more", len(res.Reported)-6))
			}
			results[i] = res
		}(i, m)
	}
	wg.Wait()
	sort.Slice(results, func(i, j int) bool { return results[i].Mutant < results[j].Mutant })
	det, stale := 0, 0
	for _, r := range results {
		switch r.Status {
		case "detected":
			det++
			c.OK("selftest", "mutant:"+r.Mutant, "", "variant reported by "+r.Expect)
		case "quiet":
			det++
			c.OK("selftest", "neutral:"+r.Mutant, "", "behaviour-preserving variant: nothing reported")
		case "false-alarm":
			c.Stuck("selftest", "neutral:"+r.Mutant, "", "FALSE ALARM of the checker: a behaviour-preserving variant is reported: "+strings.Join(r.Reported, "; "))
		case "stale":
			stale++
			c.Note("mutant %s is stale (its anchor text no longer occurs exactly once); not a verdict on the repository", r.Mutant)
		case "error":
			c.Stuck("selftest", "mutant:"+r.Mutant, "", "variant could not be analysed (does it still compile?): "+strings.Join(r.Reported, "; "))
		default:
			c.Stuck("selftest", "mutant:"+r.Mutant, "", "rule "+r.Expect+" is dead: the variant that breaks the property was not reported; reported instead: "+strings.Join(r.Reported, "; "))
		}
	}
	c.Stats["selftest_mutants"] = len(ms)
	c.Stats["selftest_detected"] = det
	c.Stats["selftest_stale"] = stale
	c.Stats["selftest_results"] = results
}
