package rules

import (
	"fmt"
	"go/ast"
	"go/types"
	"os"
	"path/filepath"
	"regexp"
	"strings"

	"dtcheck/internal/core"
)

func init() {
	register("C12", "Decides the agreement between the three descriptions of the wire format — the embedded IPLD schema (parsed), the Go structs bound to it (type-checked) and a frozen wire table (field order, wire names, kinds, nullability) — together with the frozen numbering of message types, the protocol id and the graphsync extension names (append-only evolution accepted, renaming/renumbering not); that both decoders return a body only when it is present and matches IsRequest (path rule over all paths); that every kind predicate accepts exactly its set of message-type numbers (decision tables, exhaustive over the 8 numbers + 'other'); that each constructor stores its parameters in the fields of the same meaning with the right type number; and the acceptance formula of validation responses (shared with C04.3). Not decided: round-trip equality over the IPLD value space, panic-freedom inside bindnode/dag-cbor, the full-uint64 transfer-id clause (library behaviour).",
		func(c *core.Ctx) {
			r := newR(c)
			c.Assumption("bindnode maps Go struct fields to schema fields by position/name as documented; dag-cbor encodes the schema's representation")
			c12Schema(r)
			c12Decoders(r)
			c12Codec(r)
			c12Kinds(r)
			c12Constructors(r)
			c04Response(r, "C12.4")
		})
}

type schemaField struct {
	Name, Kind, Wire string
	Nullable         bool
}
type schemaType struct {
	Fields []schemaField
	Tuple  bool
}

var reTypeHead = regexp.MustCompile(`^type\s+(\w+)\s+struct\s*\{`)
var reField = regexp.MustCompile(`^(\w+)\s+(nullable\s+)?(\w+)(?:\s+\(rename\s+"([^"]+)"\))?$`)

func parseSchema(src string) (map[string]*schemaType, []string) {
	out := map[string]*schemaType{}
	var problems []string
	var cur *schemaType
	for _, raw := range strings.Split(src, "\n") {
		line := raw
		if i := strings.Index(line, "#"); i >= 0 {
			line = line[:i]
		}
		line = strings.TrimSpace(line)
		if line == "" {
			continue
		}
		if m := reTypeHead.FindStringSubmatch(line); m != nil {
			cur = &schemaType{}
			out[m[1]] = cur
			continue
		}
		if strings.HasPrefix(line, "}") {
			if cur != nil && strings.Contains(line, "representation tuple") {
				cur.Tuple = true
			} else if cur != nil && strings.Contains(line, "representation") {
				problems = append(problems, "unknown representation: "+line)
			}
			cur = nil
			continue
		}
		if cur != nil {
			m := reField.FindStringSubmatch(strings.Join(strings.Fields(line), " "))
			if m == nil {
				problems = append(problems, "field line not understood: "+line)
				continue
			}
			f := schemaField{Name: m[1], Nullable: m[2] != "", Kind: m[3], Wire: m[4]}
			if f.Wire == "" {
				f.Wire = f.Name
			}
			cur.Fields = append(cur.Fields, f)
			continue
		}
		if strings.HasPrefix(line, "type ") {
			continue // scalar typedef
		}
		problems = append(problems, "line not understood: "+line)
	}
	return out, problems
}

// frozen wire table: what peers running other builds expect
var wireTable = map[string][]schemaField{
	"TransferRequest": {
		{"", "Link", "BCid", true}, {"", "Int", "Type", false}, {"", "Bool", "Paus", false}, {"", "Bool", "Part", false}, {"", "Bool", "Pull", false},
		{"", "Any", "Stor", true}, {"", "Any", "Vouch", true}, {"", "TypeIdentifier", "VTyp", false}, {"", "Int", "XferID", false}, {"", "ChannelID", "RestartChannel", false},
	},
	"TransferResponse": {
		{"", "Int", "Type", false}, {"", "Bool", "Acpt", false}, {"", "Bool", "Paus", false}, {"", "Int", "XferID", false}, {"", "Any", "VRes", true}, {"", "TypeIdentifier", "VTyp", false},
	},
	"TransferMessage1_1": {
		{"", "Bool", "IsRq", false}, {"", "TransferRequest", "Request", true}, {"", "TransferResponse", "Response", true},
	},
	"ChannelID": {{"", "PeerID", "Initiator", false}, {"", "PeerID", "Responder", false}, {"", "TransferID", "ID", false}},
}
var wireTuple = map[string]bool{"ChannelID": true}

// schema type → Go struct bound to it
var goBinding = map[string][2]string{
	"TransferRequest": {"message/message1_1prime", "TransferRequest1_1"}, "TransferResponse": {"message/message1_1prime", "TransferResponse1_1"},
	"TransferMessage1_1": {"message/message1_1prime", "TransferMessage1_1"}, "ChannelID": {"", "ChannelID"},
}

func kindCompatible(kind string, nullable bool, t types.Type) bool {
	ts := core.TypeShort(t)
	switch kind {
	case "Bool":
		return ts == "bool"
	case "Int":
		return ts == "uint64" || ts == "int64" || ts == "int"
	case "Link":
		return ts == "*github.com/ipfs/go-cid.Cid" || ts == "github.com/ipfs/go-cid.Cid"
	case "Any":
		return ts == "github.com/ipld/go-ipld-prime/datamodel.Node"
	case "TypeIdentifier":
		return ts == "datatransfer.TypeIdentifier"
	case "PeerID":
		return ts == "github.com/libp2p/go-libp2p/core/peer.ID"
	case "TransferID":
		return ts == "datatransfer.TransferID"
	case "ChannelID":
		return ts == "datatransfer.ChannelID"
	case "TransferRequest":
		return ts == "*message/message1_1prime.TransferRequest1_1"
	case "TransferResponse":
		return ts == "*message/message1_1prime.TransferResponse1_1"
	}
	return false
}

var frozenMsgTypes = map[string]string{"NewMessage": "0", "UpdateMessage": "1", "CancelMessage": "2", "CompleteMessage": "3", "VoucherMessage": "4", "VoucherResultMessage": "5",
	"RestartMessage": "6", "RestartExistingChannelRequestMessage": "7"}

func c12Schema(r *R) {
	path := filepath.Join(r.p.Dir, "message/message1_1prime/schema.ipldsch")
	var src []byte
	if ov, ok := r.p.Overlay[path]; ok {
		src = ov
	} else {
		b, err := os.ReadFile(path)
		if err != nil {
			r.c.Stuck("C12.1", "schema-file", path, "cannot read the embedded schema: "+err.Error())
			return
		}
		src = b
	}
	sch, problems := parseSchema(string(src))
	for _, p := range problems {
		r.c.Stuck("C12.1", "schema-parse:"+p, "message/message1_1prime/schema.ipldsch", "schema line outside the grammar the checker understands: "+p)
	}
	site := "message/message1_1prime/schema.ipldsch"
	for tname, want := range wireTable {
		st := sch[tname]
		if st == nil {
			r.c.Bad("C12.1", "schema-type:"+tname, site, "type "+tname+" is missing from the schema")
			continue
		}
		r.c.Check(st.Tuple == wireTuple[tname], "C12.1", "representation:"+tname, site, "representation unchanged", "representation of "+tname+" changed (tuple vs map): peers on other builds cannot decode it")
		for i, w := range want {
			key := fmt.Sprintf("wire:%s[%d]=%s", tname, i, w.Wire)
			if i >= len(st.Fields) {
				r.c.Bad("C12.1", key, site, "field "+w.Wire+" of "+tname+" was removed from the schema")
				continue
			}
			g := st.Fields[i]
			r.c.Check(g.Wire == w.Wire && g.Kind == w.Kind && g.Nullable == w.Nullable, "C12.1", key, site, "wire name, kind and nullability unchanged",
				fmt.Sprintf("wire field %d of %s is (%s %s nullable=%v), peers expect (%s %s nullable=%v)", i, tname, g.Wire, g.Kind, g.Nullable, w.Wire, w.Kind, w.Nullable))
		}
		for i := len(want); i < len(st.Fields); i++ {
			g := st.Fields[i]
			r.c.Check(g.Nullable && !st.Tuple, "C12.1", fmt.Sprintf("wire:%s[%d]+%s", tname, i, g.Wire), site, "appended optional field", "field "+g.Wire+" was appended to "+tname+" but is not optional (or the type is a tuple): older peers cannot interoperate")
		}
		// Go binding
		gb := goBinding[tname]
		pk := r.p.ByRel[gb[0]]
		var gs *types.Struct
		if pk != nil {
			if tn, ok := pk.Types.Scope().Lookup(gb[1]).(*types.TypeName); ok {
				gs, _ = tn.Type().Underlying().(*types.Struct)
			}
		}
		if gs == nil {
			r.c.Stuck("C12.1", "go-struct:"+tname, "", "Go struct "+gb[1]+" bound to "+tname+" not found")
			continue
		}
		r.c.Check(gs.NumFields() == len(st.Fields), "C12.1", "go-fields:"+tname, r.p.Pos(gs.Field(0).Pos()), "Go struct and schema have the same number of fields", fmt.Sprintf("Go struct %s has %d fields, schema type %s has %d", gb[1], gs.NumFields(), tname, len(st.Fields)))
		for i := 0; i < gs.NumFields() && i < len(st.Fields); i++ {
			gf, sf := gs.Field(i), st.Fields[i]
			r.c.Check(gf.Name() == sf.Name && kindCompatible(sf.Kind, sf.Nullable, gf.Type()), "C12.1", fmt.Sprintf("go-field:%s.%s", tname, sf.Name), r.p.Pos(gf.Pos()), "Go field matches the schema field",
				fmt.Sprintf("field %d: Go has %s %s, schema has %s %s", i, gf.Name(), core.TypeShort(gf.Type()), sf.Name, sf.Kind))
		}
	}
	// message type numbering
	tp := r.p.ByRel["message/types"]
	if tp != nil {
		for name, want := range frozenMsgTypes {
			c, ok := tp.Types.Scope().Lookup(name).(*types.Const)
			got := "<missing>"
			site := ""
			if ok {
				got = c.Val().ExactString()
				site = r.p.Pos(c.Pos())
			}
			r.c.Check(got == want, "C12.1", "message-type:"+name, site, "= "+want, fmt.Sprintf("message type %s is numbered %s, peers expect %s", name, got, want))
		}
		for _, n := range tp.Types.Scope().Names() {
			if c, ok := tp.Types.Scope().Lookup(n).(*types.Const); ok && core.TypeShort(c.Type()) == "message/types.MessageType" {
				if _, known := frozenMsgTypes[n]; !known {
					v := c.Val().ExactString()
					clash := false
					for _, w := range frozenMsgTypes {
						if w == v {
							clash = true
						}
					}
					r.c.Check(!clash, "C12.1", "message-type-new:"+n, r.p.Pos(c.Pos()), "new type appended", "new message type "+n+" reuses number "+v)
				}
			}
		}
	}
	// protocol id and extension names
	consts := []struct{ rel, name, want string }{
		{"", "ProtocolDataTransfer1_2", `"/fil/datatransfer/1.2.0"`},
		{"transport/graphsync/extension", "ExtensionIncomingRequest1_1", `"fil/data-transfer/incoming-request/1.1"`},
		{"transport/graphsync/extension", "ExtensionOutgoingBlock1_1", `"fil/data-transfer/outgoing-block/1.1"`},
		{"transport/graphsync/extension", "ExtensionDataTransfer1_1", `"fil/data-transfer/1.1"`},
	}
	for _, k := range consts {
		pk := r.p.ByRel[k.rel]
		got, site := "<missing>", ""
		if pk != nil {
			switch o := pk.Types.Scope().Lookup(k.name).(type) {
			case *types.Const:
				got, site = o.Val().ExactString(), r.p.Pos(o.Pos())
			case *types.Var:
				// package variable initialised with a constant expression
				site = r.p.Pos(o.Pos())
				for _, f := range pk.Syntax {
					for _, d := range f.Decls {
						gd, ok := d.(*ast.GenDecl)
						if !ok {
							continue
						}
						for _, sp := range gd.Specs {
							vs, ok := sp.(*ast.ValueSpec)
							if !ok {
								continue
							}
							for i, n := range vs.Names {
								if pk.TypesInfo.Defs[n] == o && i < len(vs.Values) {
									if tv, ok := pk.TypesInfo.Types[vs.Values[i]]; ok && tv.Value != nil {
										got = tv.Value.ExactString()
									}
								}
							}
						}
					}
				}
			}
		}
		r.c.Check(got == k.want, "C12.1", "identifier:"+k.name, site, "= "+k.want, fmt.Sprintf("%s is %s, peers expect %s", k.name, got, k.want))
	}
	// the schema registered is the embedded one, for the root message type
	okReg := false
	for _, m := range r.p.Prod {
		if core.TopLevel(m).Pkg != r.p.SSAByRel["message/message1_1prime"] {
			continue
		}
		for _, ci := range core.CallSites(m) {
			if !strings.HasSuffix(r.p.CalleeName(ci.Common()), "BindnodeRegistry).RegisterType") {
				continue
			}
			a := ci.Common().Args
			if len(a) >= 4 && strings.Contains(r.d.Of(a[2]), "embedSchema") && r.d.Of(a[3]) == `"TransferMessage1_1"` {
				okReg = true
			}
		}
	}
	r.c.Check(okReg, "C12.1", "registry-binding", "message/message1_1prime/transfer_message.go", "TransferMessage1_1 registered with the embedded schema", "the bindnode registry is not bound to the embedded schema for TransferMessage1_1")
}

// c12Codec: the network form is written with the canonical DAG-CBOR encoder and
// read with its decoder (a differently configured encoder changes the bytes).
func c12Codec(r *R) {
	enc, dec := "func:github.com/ipld/go-ipld-prime/codec/dagcbor.Encode", "func:github.com/ipld/go-ipld-prime/codec/dagcbor.Decode"
	n := 0
	for _, fn := range r.p.Prod {
		if fn.Pkg == nil || !strings.HasSuffix(fn.Pkg.Pkg.Path(), "message/message1_1prime") {
			continue
		}
		for _, ci := range core.CallSites(fn) {
			name := r.p.CalleeName(ci.Common())
			want := ""
			switch {
			case name == "github.com/ipld/go-ipld-prime.EncodeStreaming" || strings.HasSuffix(name, "BindnodeRegistry).TypeToWriter") || strings.HasSuffix(name, "BindnodeRegistry).TypeToBytes") || name == "github.com/ipld/go-ipld-prime.Encode":
				want = enc
			case name == "github.com/ipld/go-ipld-prime.DecodeStreaming" || strings.HasSuffix(name, "BindnodeRegistry).TypeFromReader") || strings.HasSuffix(name, "BindnodeRegistry).TypeFromBytes") || name == "github.com/ipld/go-ipld-prime.Decode":
				want = dec
			default:
				continue
			}
			n++
			args := ci.Common().Args
			got := r.d.Of(args[len(args)-1])
			r.c.Check(got == want, "C12.2", "codec:"+r.siteKey(ci), r.p.InstrPos(ci), "canonical DAG-CBOR codec", "the network form is written/read with "+got+" instead of the canonical "+want+": the bytes are no longer the published DAG-CBOR form")
		}
	}
	r.c.Floor("C12.2", n, 4, "encode/decode sites in message1_1prime")
}

func c12Decoders(r *R) {
	for _, name := range []string{"FromNet", "FromIPLD"} {
		fn := r.fn("C12.2", "message/message1_1prime", "", name)
		if fn == nil {
			continue
		}
		nReq, nResp := 0, 0
		for i, pt := range r.pathsOf("C12.2", fn) {
			if pt.End != "return" {
				continue
			}
			key := fmt.Sprintf("%s/path#%d", name, i+1)
			body, err := pt.RetDesc(0), pt.RetDesc(1)
			switch {
			case body == "nil":
				r.c.Check(err != "nil", "C12.2", key, r.p.Pos(fn.Pos()), "no body ⇒ error", name+" returns neither a message nor an error: "+pt.Describe())
			case strings.HasSuffix(body, ".Request"):
				tm := strings.TrimSuffix(body, ".Request")
				nReq++
				r.c.Check(err == "nil" && pt.Has("+"+tm+".IsRequest") && pt.Has("-"+tm+".Request==nil"), "C12.2", key, r.p.Pos(fn.Pos()), "request body returned only when IsRequest and present", name+" returns the request body without establishing IsRequest and Request != nil: "+pt.Describe())
			case strings.HasSuffix(body, ".Response"):
				tm := strings.TrimSuffix(body, ".Response")
				nResp++
				r.c.Check(err == "nil" && pt.Has("-"+tm+".IsRequest") && pt.Has("-"+tm+".Response==nil"), "C12.2", key, r.p.Pos(fn.Pos()), "response body returned only when !IsRequest and present", name+" returns the response body without establishing !IsRequest and Response != nil: "+pt.Describe())
			default:
				r.c.Bad("C12.2", key, r.p.Pos(fn.Pos()), name+" returns "+body+", which is neither body of the decoded message")
			}
		}
		r.c.Floor("C12.2", nReq, 1, "request-returning paths of "+name)
		r.c.Floor("C12.2", nResp, 1, "response-returning paths of "+name)
	}
}

func c12Kinds(r *R) {
	num := func(n string) string { return frozenMsgTypes[n] }
	type pred struct {
		recv, v, name string
		accept        []string
	}
	preds := []pred{
		{"TransferRequest1_1", "trq", "IsNew", []string{"NewMessage"}}, {"TransferRequest1_1", "trq", "IsUpdate", []string{"UpdateMessage"}},
		{"TransferRequest1_1", "trq", "IsCancel", []string{"CancelMessage"}}, {"TransferRequest1_1", "trq", "IsVoucher", []string{"VoucherMessage", "NewMessage"}},
		{"TransferRequest1_1", "trq", "IsRestart", []string{"RestartMessage"}}, {"TransferRequest1_1", "trq", "IsRestartExistingChannelRequest", []string{"RestartExistingChannelRequestMessage"}},
		{"TransferResponse1_1", "trsp", "IsNew", []string{"NewMessage"}}, {"TransferResponse1_1", "trsp", "IsUpdate", []string{"UpdateMessage"}},
		{"TransferResponse1_1", "trsp", "IsCancel", []string{"CancelMessage"}}, {"TransferResponse1_1", "trsp", "IsComplete", []string{"CompleteMessage"}},
		{"TransferResponse1_1", "trq", "IsRestart", []string{"RestartMessage"}},
		{"TransferResponse1_1", "trsp", "IsValidationResult", []string{"VoucherResultMessage", "NewMessage", "CompleteMessage", "RestartMessage"}},
	}
	for _, p := range preds {
		p := p
		fn := r.fn("C12.3", "message/message1_1prime", p.recv, p.name)
		if fn == nil {
			continue
		}
		v := core.ParamName(fn.Params[0])
		var atoms []string
		for i := 0; i < 8; i++ {
			atoms = append(atoms, fmt.Sprintf("%d:uint64==%s.MessageType", i, v))
		}
		acc := map[string]bool{}
		for _, a := range p.accept {
			acc[num(a)+":uint64=="+v+".MessageType"] = true
		}
		r.table("C12.3:"+p.recv+"."+p.name, fn, 0, atoms, func(a map[string]bool) string {
			nTrue, res := 0, false
			for k, t := range a {
				if t {
					nTrue++
					if acc[k] {
						res = true
					}
				}
			}
			if nTrue > 1 {
				return "<infeasible>"
			}
			return b2s(res)
		})
	}
	// fixed answers
	for _, x := range [][3]string{{"TransferRequest1_1", "IsRequest", "true"}, {"TransferResponse1_1", "IsRequest", "false"}} {
		fn := r.fn("C12.3", "message/message1_1prime", x[0], x[1])
		if fn != nil {
			ps, _ := r.p.Paths(fn)
			r.c.Check(len(ps) == 1 && ps[0].RetDesc(0) == x[2], "C12.3", x[0]+"."+x[1], r.p.Pos(fn.Pos()), "= "+x[2], x[0]+"."+x[1]+" does not return "+x[2])
		}
	}
}

func c12Constructors(r *R) {
	mt := func(n string) string { return r.msgType(n) }
	type ctor struct {
		name string
		want map[string]string
	}
	ev := "message/message1_1prime.emptyTypedVoucher"
	_ = ev
	ctors := []ctor{
		{"RestartExistingChannelRequest", map[string]string{"MessageType": mt("RestartExistingChannelRequestMessage"), "RestartChannel": "channelId"}},
		{"CancelRequest", map[string]string{"MessageType": mt("CancelMessage"), "TransferId": "id"}},
		{"UpdateRequest", map[string]string{"MessageType": mt("UpdateMessage"), "TransferId": "id", "Pause": "isPaused"}},
		{"UpdateResponse", map[string]string{"MessageType": mt("UpdateMessage"), "TransferId": "id", "Paused": "isPaused"}},
		{"CancelResponse", map[string]string{"MessageType": mt("CancelMessage"), "TransferId": "id"}},
		{"VoucherRequest", map[string]string{"MessageType": mt("VoucherMessage"), "TransferId": "id", "VoucherPtr": "@voucher.Voucher", "VoucherTypeIdentifier": "@voucher.Type"}},
		{"RestartResponse", map[string]string{"MessageType": mt("RestartMessage"), "TransferId": "id", "RequestAccepted": "accepted", "Paused": "isPaused", "VoucherResultPtr": "@voucherResult.Voucher", "VoucherTypeIdentifier": "@voucherResult.Type"}},
		{"NewResponse", map[string]string{"MessageType": mt("NewMessage"), "TransferId": "id", "RequestAccepted": "accepted", "Paused": "isPaused", "VoucherResultPtr": "@voucherResult.Voucher", "VoucherTypeIdentifier": "@voucherResult.Type"}},
		{"VoucherResultResponse", map[string]string{"MessageType": mt("VoucherResultMessage"), "TransferId": "id", "RequestAccepted": "accepted", "Paused": "isPaused", "VoucherResultPtr": "@voucherResult.Voucher", "VoucherTypeIdentifier": "@voucherResult.Type"}},
		{"CompleteResponse", map[string]string{"MessageType": mt("CompleteMessage"), "TransferId": "id", "RequestAccepted": "isAccepted", "Paused": "isPaused", "VoucherResultPtr": "@voucherResult.Voucher", "VoucherTypeIdentifier": "@voucherResult.Type"}},
		{"NewRequest", map[string]string{"TransferId": "id", "Pull": "isPull", "SelectorPtr": "selector", "BaseCidPtr": "&(baseCid)", "VoucherPtr": "@voucher.Voucher", "VoucherTypeIdentifier": "@voucher.Type", "MessageType": "?restart"}},
	}
	for _, ct := range ctors {
		fn := r.fn("C12.5", "message/message1_1prime", "", ct.name)
		if fn == nil {
			continue
		}
		n := 0
		for _, pt := range r.pathsOf("C12.5", fn) {
			if pt.End != "return" || pt.RetDesc(0) == "nil" {
				continue
			}
			flds, _, ok := retFields(pt, 0)
			if !ok {
				r.c.Stuck("C12.5", "ctor:"+ct.name, r.p.Pos(fn.Pos()), "message not built as a struct literal")
				break
			}
			n++
			for f, w := range ct.want {
				got := flds[f]
				key := fmt.Sprintf("ctor:%s.%s/path#%d", ct.name, f, n)
				switch {
				case strings.HasPrefix(w, "@"):
					// field of the voucher parameter, or of the empty voucher when the parameter is nil
					parts := strings.SplitN(w[1:], ".", 2)
					param, sub := parts[0], parts[1]
					want := param + "." + sub
					if pt.Has("+" + param + "==nil") {
						want = "message/message1_1prime.emptyTypedVoucher." + sub
					}
					r.c.Check(got == want, "C12.5", key, r.p.Pos(fn.Pos()), "= "+want, fmt.Sprintf("%s sets %s to %s, expected %s", ct.name, f, got, want))
				case w == "?restart":
					want := mt("NewMessage")
					if pt.Has("+isRestart") {
						want = mt("RestartMessage")
					}
					r.c.Check(got == want && (pt.Has("+isRestart") || pt.Has("-isRestart")), "C12.5", key, r.p.Pos(fn.Pos()), "type number by the restart flag", fmt.Sprintf("%s sets MessageType to %s, expected %s", ct.name, got, want))
				default:
					r.c.Check(got == w, "C12.5", key, r.p.Pos(fn.Pos()), "= "+w, fmt.Sprintf("%s sets %s to %s, expected %s", ct.name, f, got, w))
				}
			}
			// no other field of meaning is set
			for f, got := range flds {
				if _, ok := ct.want[f]; !ok {
					r.c.Bad("C12.5", fmt.Sprintf("ctor:%s.%s/unexpected#%d", ct.name, f, n), r.p.Pos(fn.Pos()), ct.name+" also sets "+f+" = "+got)
				}
			}
		}
		r.c.Floor("C12.5", n, 1, "message-building paths of "+ct.name)
	}
}
