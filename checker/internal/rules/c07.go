package rules

import (
	"fmt"
	"strings"

	"dtcheck/internal/core"

	"golang.org/x/tools/go/ssa"
)

func init() {
	register("C07", "Decides each mechanism that makes the totals right on every path: the index actions store the reported index only under 'reported > stored' and the progress actions add exactly the reported delta to their own byte counter (SSA stores + dominance facts on the FSM action literals); updateIfGreater returns true only after 'new > current' and a successful compare-and-swap of that current value (path enumeration); fireProgressEvent sends the progress event exactly when checkEvents reported progress, which it does only for unique blocks that advanced the high-water mark; for each direction the durable field that seeds the cache is the field its event's action writes (name-free agreement through accessor → field and event → field maps); the transport reports only blocks that went on the wire, with size/index/uniqueness taken from the block. Not decided: numeric totals of a history; atomicity of the compare-and-swap itself (sync/atomic).",
		func(c *core.Ctx) {
			r := newR(c)
			f := fsmOrStuck(c, "C07.0")
			c07Actions(r, f)
			c07Cache(r)
			c07Fire(r)
			c07Direction(r, f)
			c07Transport(r)
			c07Seed(r)
		})
}

var indexEvents = map[string]string{"DataReceived": "ReceivedBlocksTotal", "DataSent": "SentBlocksTotal", "DataQueued": "QueuedBlocksTotal"}
var progressEvents = map[string]string{"DataReceivedProgress": "Received", "DataSentProgress": "Sent", "DataQueuedProgress": "Queued"}

// storesTo returns the stores in fn to field fld of the struct pointed to by parameter 0.
func storesTo(fn *ssa.Function, fld string) []*ssa.Store {
	var out []*ssa.Store
	for _, b := range fn.Blocks {
		for _, ins := range b.Instrs {
			st, ok := ins.(*ssa.Store)
			if !ok {
				continue
			}
			if fa, ok := st.Addr.(*ssa.FieldAddr); ok && len(fn.Params) > 0 && fa.X == fn.Params[0] {
				if _, name := core.FieldOwner(fa); name == fld {
					out = append(out, st)
				}
			}
		}
	}
	return out
}

func c07Actions(r *R, f *core.FSM) {
	for ev, fld := range indexEvents {
		fn := f.Action[ev]
		if fn == nil || len(fn.Params) != 2 {
			r.c.Stuck("C07.1", "action:"+ev, "", "action of "+ev+" not resolved or does not take (state, index)")
			continue
		}
		arg := core.ParamName(fn.Params[1])
		sts := storesTo(fn, fld)
		if len(sts) != 1 {
			r.c.Bad("C07.1", "index-store:"+ev, r.p.Pos(fn.Pos()), fmt.Sprintf("action of %s stores to %s %d times, expected exactly once", ev, fld, len(sts)))
			continue
		}
		val := r.d.Of(sts[0].Val)
		r.c.Check(val == arg, "C07.1", "index-value:"+ev, r.p.InstrPos(sts[0]), fld+" := reported index", fmt.Sprintf("%s stores %s to %s instead of the reported index %s", ev, val, fld, arg))
		r.guarded("C07.1", sts[0], "index-monotone:"+ev, "+chst."+fld+"<"+arg)
	}
	for ev, fld := range progressEvents {
		fn := f.Action[ev]
		if fn == nil || len(fn.Params) != 2 {
			r.c.Stuck("C07.1", "action:"+ev, "", "action of "+ev+" not resolved or does not take (state, delta)")
			continue
		}
		arg := core.ParamName(fn.Params[1])
		sts := storesTo(fn, fld)
		if len(sts) != 1 {
			r.c.Bad("C07.1", "progress-store:"+ev, r.p.Pos(fn.Pos()), fmt.Sprintf("action of %s stores to %s %d times, expected exactly once", ev, fld, len(sts)))
			continue
		}
		val := r.d.Of(sts[0].Val)
		want := "(chst." + fld + "+" + arg + ")"
		ok := val == want && len(r.p.AtomsAtInstr(sts[0])) == 0
		r.c.Check(ok, "C07.1", "progress-value:"+ev, r.p.InstrPos(sts[0]), fld+" += delta, unconditionally", fmt.Sprintf("%s stores %s to %s (expected %s, unconditionally)", ev, val, fld, want))
	}
}

func c07Cache(r *R) {
	fn := r.fn("C07.2", "channels", "blockIndexCache", "updateIfGreater")
	if fn == nil {
		return
	}
	gv := r.one("C07.2", fn, "(*channels.blockIndexCache).getValue")
	if gv == nil {
		return
	}
	r.argIs("C07.2", gv, 0, "evt", "cache key event")
	r.argIs("C07.2", gv, 1, "chid", "cache key channel")
	r.argIs("C07.2", gv, 2, "readFromOriginal", "durable seed reader")
	word := r.v(gv) + "#0"
	cur := "sync/atomic.LoadInt64(" + word + ")"
	cas := "sync/atomic.CompareAndSwapInt64(" + word + "," + cur + ",newIndex)"
	nTrue := 0
	for _, pt := range r.pathsOf("C07.2", fn) {
		if pt.End != "return" {
			continue
		}
		switch pt.RetDesc(0) {
		case "true":
			nTrue++
			r.c.Check(pt.Has("+"+cur+"<newIndex") && pt.Has("+"+cas) && pt.RetDesc(1) == "nil", "C07.2", fmt.Sprintf("advance-path#%d", nTrue), r.p.Pos(fn.Pos()),
				"advance reported only after new > current and a successful CAS from that current value", "updateIfGreater reports an advance without (new > current ∧ CAS(current→new) succeeded): "+pt.Describe())
		case "false":
			// not advancing: must not have done a successful CAS
			r.c.Check(!pt.Has("+"+cas), "C07.2", fmt.Sprintf("no-advance-path#%d", len(r.c.Obs)), r.p.Pos(fn.Pos()), "no advance reported without a swap", "updateIfGreater swaps the high-water mark but reports no advance: "+pt.Describe())
		default:
			r.c.Bad("C07.2", fmt.Sprintf("path#%d", len(r.c.Obs)), r.p.Pos(fn.Pos()), "updateIfGreater returns "+pt.RetDesc(0)+", which is not a decided boolean")
		}
	}
	r.c.Floor("C07.2", nTrue, 1, "advancing paths of updateIfGreater")
	// the only writes to the word are the CAS (atomic-only is checked under C20.2)
}

func c07Fire(r *R) {
	ce := r.fn("C07.3", "channels", "Channels", "checkEvents")
	if ce != nil {
		uig := r.one("C07.3", ce, "(*channels.blockIndexCache).updateIfGreater")
		pg := r.one("C07.3", ce, "(*channels.progressCache).progress")
		if uig != nil && pg != nil {
			for i, w := range []string{"evt", "chid", "index", "readFromOriginal"} {
				r.argIs("C07.3", uig, i, w, "updateIfGreater argument")
			}
			for i, w := range []string{"chid", "delta", "readProgress"} {
				r.argIs("C07.3", pg, i, w, "progress argument")
			}
			u, pr := r.v(uig), r.v(pg)
			n := 0
			for _, pt := range r.pathsOf("C07.3", ce) {
				if pt.End != "return" {
					continue
				}
				n++
				key := fmt.Sprintf("checkEvents/path#%d", n)
				// a returned flag the path has already branched on is the constant it was found to be
				progress, pause := truth(pt, pt.RetDesc(1)), truth(pt, pt.RetDesc(0))
				adv := pt.Has("+unique") && pt.Has("+"+u+"#1==nil")
				okP := progress == "false" || (progress == u+"#0" && adv) || (progress == "true" && adv && pt.Has("+"+u+"#0"))
				r.c.Check(okP, "C07.3", key+"/progress", r.p.Pos(ce.Pos()), "progress only for a unique block that advanced the mark", "checkEvents reports progress = "+progress+" on "+pt.Describe())
				okZ := pause == "false" || (pause == pr+"#0" && pt.Has("+unique") && pt.Has("+"+u+"#0") && pt.Has("-readProgress==nil"))
				r.c.Check(okZ, "C07.3", key+"/pause", r.p.Pos(ce.Pos()), "pause only from the limit check of a counted block", "checkEvents reports pause = "+pause+" on "+pt.Describe())
				if pt.Has("-unique") {
					r.c.Check(progress == "false" && pause == "false" && len(pt.Evs) == 0, "C07.3", key+"/non-unique", r.p.Pos(ce.Pos()), "non-unique block: no progress, caches untouched", "a non-unique block touches the caches or reports progress: "+pt.Describe())
				}
				if adv && pt.Has("+"+u+"#0") {
					r.c.Check(progress == "true", "C07.3", key+"/counted", r.p.Pos(ce.Pos()), "an advancing unique block is reported as progress", "a unique block that advanced the mark is not reported as progress: "+pt.Describe())
				}
			}
			r.c.Floor("C07.3", n, 5, "paths of checkEvents")
		}
	}
	fp := r.fn("C07.3", "channels", "Channels", "fireProgressEvent")
	if fp != nil {
		cev := r.one("C07.3", fp, "(*channels.Channels).checkEvents")
		if cev == nil {
			return
		}
		for i, w := range []string{"chid", "evt", "delta", "index", "unique", "readFromOriginal", "readProgress"} {
			r.argIs("C07.3", cev, i, w, "checkEvents argument")
		}
		c := r.v(cev)
		send := r.p.Is("(github.com/filecoin-project/go-statemachine/fsm.Group).Send")
		n := 0
		for _, pt := range r.pathsOf("C07.3", fp) {
			if pt.End != "return" || !pt.Has("+"+c+"#2==nil") {
				continue
			}
			n++
			key := fmt.Sprintf("fire/path#%d", n)
			var nProg, nEvt int
			progFirst := true
			for _, ev := range pt.Evs {
				if !send(ev) {
					continue
				}
				code, args := pt.ArgDesc(ev, 1), pt.ArgDesc(ev, 2)
				switch {
				case code == "progressEvt" && args == "[delta]" && pt.ArgDesc(ev, 0) == "chid":
					nProg++
					if nEvt > 0 {
						progFirst = false
					}
				case code == "evt" && args == "[index]" && pt.ArgDesc(ev, 0) == "chid":
					nEvt++
				}
			}
			if pt.Has("+" + c + "#1") {
				r.c.Check(nProg == 1 && progFirst, "C07.3", key+"/progress-sent", r.p.Pos(fp.Pos()), "progress event sent once with the delta", "progress was made but the progress event is not sent exactly once with [delta]: "+pt.Describe())
			} else {
				r.c.Check(nProg == 0, "C07.3", key+"/no-progress", r.p.Pos(fp.Pos()), "no progress event without progress", "progress event sent although no progress was made (replayed or non-unique block counted): "+pt.Describe())
			}
			abort := false
			for _, a := range pt.Atoms {
				if !a.Pol && strings.HasPrefix(a.S, "c.stateMachines.Send(chid,progressEvt") {
					abort = true
				}
			}
			if !abort {
				r.c.Check(nEvt == 1, "C07.3", key+"/index-sent", r.p.Pos(fp.Pos()), "index event sent once with the index", "the index event is not sent exactly once with [index]: "+pt.Describe())
			}
		}
		r.c.Floor("C07.3", n, 6, "paths of fireProgressEvent past checkEvents")
	}
}

// accessorField maps channelState accessor methods to the record field they return.
func accessorField(r *R) map[string]string {
	out := map[string]string{}
	sp := r.p.SSAByRel["channels"]
	if sp == nil {
		return out
	}
	for _, fn := range r.p.Prod {
		if fn.Pkg != sp || fn.Signature.Recv() == nil || !strings.HasPrefix(core.ShortFn(fn), "(channels.channelState).") {
			continue
		}
		ps, ok := r.p.Paths(fn)
		if !ok || len(ps) != 1 || ps[0].Ret == nil || len(ps[0].Ret.Results) != 1 {
			continue
		}
		d := ps[0].RetDesc(0)
		if strings.HasPrefix(d, "c.ic.") && !strings.ContainsAny(d[5:], ".([") {
			out[fn.Name()] = d[5:]
		}
	}
	return out
}

func c07Direction(r *R, f *core.FSM) {
	acc := accessorField(r)
	r.c.Stats["channelState_field_accessors"] = len(acc)
	r.c.Floor("C07.4", len(acc), 15, "single-field accessors of channelState")
	for _, m := range []struct {
		method   string
		wantProg bool
	}{{"DataSent", false}, {"DataQueued", true}, {"DataReceived", true}} {
		fn := r.fn("C07.4", "channels", "Channels", m.method)
		site := r.one("C07.4", fn, "(*channels.Channels).fireProgressEvent")
		if site == nil {
			continue
		}
		ev, pev := r.dOf(site.(ssa.Instruction)).Of(core.Arg(site.Common(), 1)), r.dOf(site.(ssa.Instruction)).Of(core.Arg(site.Common(), 2))
		key := m.method
		r.c.Check(ev == m.method && pev == m.method+"Progress", "C07.4", key+"/events", r.p.InstrPos(site), "fires "+m.method+" / "+m.method+"Progress", fmt.Sprintf("Channels.%s fires (%s, %s)", m.method, ev, pev))
		for i, w := range []string{"chid", "", "", "delta", "index", "unique"} {
			if w != "" {
				r.argIs("C07.4", site, i, w, "fireProgressEvent argument")
			}
		}
		// index reader
		idxFn := resolveBound(r, core.Arg(site.Common(), 6))
		if idxFn == nil {
			r.c.Bad("C07.4", key+"/index-reader", r.p.InstrPos(site), "the index reader of "+m.method+" is not a bound method of Channels")
		} else {
			fld := readerField(r, idxFn, 0, acc)
			r.c.Check(fld == indexEvents[ev], "C07.4", key+"/index-reader", r.p.Pos(idxFn.Pos()), "cache seeded from "+indexEvents[ev], fmt.Sprintf("the high-water mark of %s is seeded from durable field %q but the event's action writes %q", ev, fld, indexEvents[ev]))
		}
		pr := core.Arg(site.Common(), 7)
		if !m.wantProg {
			r.c.Check(r.d.Of(pr) == "nil", "C07.4", key+"/progress-reader", r.p.InstrPos(site), "no data-limit check on this direction", "unexpected progress reader "+r.d.Of(pr))
			continue
		}
		pFn := resolveBound(r, pr)
		if pFn == nil {
			r.c.Bad("C07.4", key+"/progress-reader", r.p.InstrPos(site), "the progress reader of "+m.method+" is not a bound method of Channels (limit never checked / progress forgotten)")
			continue
		}
		lim := readerField(r, pFn, 0, acc)
		fld := readerField(r, pFn, 1, acc)
		r.c.Check(fld == progressEvents[pev] && lim == "DataLimit", "C07.4", key+"/progress-reader", r.p.Pos(pFn.Pos()), "limit check seeded from DataLimit and "+progressEvents[pev],
			fmt.Sprintf("the limit check of %s is seeded from (%q, %q); the progress event's action writes %q", ev, lim, fld, progressEvents[pev]))
	}
}

// resolveBound maps c.method$bound to the method.
func resolveBound(r *R, v ssa.Value) *ssa.Function {
	for {
		if ct, ok := v.(*ssa.ChangeType); ok {
			v = ct.X
			continue
		}
		break
	}
	mc, ok := v.(*ssa.MakeClosure)
	if !ok {
		return nil
	}
	fn := mc.Fn.(*ssa.Function)
	if !strings.HasSuffix(fn.Name(), "$bound") {
		return nil
	}
	return r.p.Func("channels", "Channels", strings.TrimSuffix(fn.Name(), "$bound"))
}

// readerField: on the success path of a reader (error result nil), result ri
// is GetByID(chid)#0.<Accessor>(); returns the record field behind it.
func readerField(r *R, fn *ssa.Function, ri int, acc map[string]string) string {
	ps, ok := r.p.Paths(fn)
	if !ok {
		return "<paths>"
	}
	res := ""
	for _, pt := range ps {
		if pt.Ret == nil {
			continue
		}
		last := len(pt.Ret.Results) - 1
		if pt.RetDesc(last) != "nil" {
			continue
		}
		d := pt.RetDesc(ri)
		const pre = "c.GetByID(_,chid)#0."
		if !strings.HasPrefix(d, pre) || !strings.HasSuffix(d, "()") {
			return "<" + d + ">"
		}
		fld, ok := acc[strings.TrimSuffix(d[len(pre):], "()")]
		if !ok {
			return "<" + d + ">"
		}
		if res != "" && res != fld {
			return "<ambiguous>"
		}
		res = fld
	}
	return res
}

func c07Transport(r *R) {
	for _, h := range []struct {
		hook, cb string
		guard    bool
		idArg    string
	}{
		{"gsIncomingBlockHook", "OnDataReceived", false, "response.RequestID()"},
		{"gsBlockSentHook", "OnDataSent", true, "request.ID()"},
		{"gsOutgoingBlockHook", "OnDataQueued", true, "request.ID()"},
	} {
		fn := r.fn("C07.5", "transport/graphsync", "Transport", h.hook)
		s := r.one("C07.5", fn, "(datatransfer.EventsHandler)."+h.cb)
		if s == nil {
			continue
		}
		load := "t.requestIDToChannelID.load(" + h.idArg + ")"
		if h.guard {
			r.guarded("C07.5", s, r.siteKey(s)+"/on-wire", "-0:uint64==block.BlockSizeOnWire()", "+"+load+"#1")
		} else {
			r.guarded("C07.5", s, r.siteKey(s)+"/known-request", "+"+load+"#1")
		}
		for i, w := range []string{load + "#0", "block.Link()", "block.BlockSize()", "block.Index()", "(0:uint64!=block.BlockSizeOnWire())"} {
			rule := "C07.6"
			r.argIs(rule, s, i, w, []string{"channel", "link", "size", "index", "unique"}[i]+" reported for the block")
		}
	}
	// manager callbacks forward the report unchanged
	for _, h := range []struct{ cb, ch string }{{"OnDataReceived", "DataReceived"}, {"OnDataQueued", "DataQueued"}, {"OnDataSent", "DataSent"}} {
		fn := r.fn("C07.6", "impl", "manager", h.cb)
		s := r.one("C07.6", fn, "(*channels.Channels)."+h.ch)
		if s == nil {
			continue
		}
		for i, w := range []string{"chid", "", "size", "index", "unique"} {
			if w != "" {
				r.argIs("C07.6", s, i, w, "report forwarded to the channel")
			}
		}
	}
	r.onlyCallers("C07.6", "(*channels.Channels).fireProgressEvent", 3, "(*channels.Channels).DataSent", "(*channels.Channels).DataQueued", "(*channels.Channels).DataReceived")
}

// c07Seed: the cache cell is installed once per key: the map insertion in
// getValue is dominated by a nil re-check of a lookup made under the write lock.
func c07Seed(r *R) {
	for _, x := range []struct{ recv, rule string }{{"blockIndexCache", "C07.2"}, {"progressCache", "C07.2"}} {
		fn := r.fn(x.rule, "channels", x.recv, "getValue")
		if fn == nil {
			continue
		}
		held := lockRegions(r.p, fn)
		n := 0
		for _, b := range fn.Blocks {
			for _, ins := range b.Instrs {
				mu, ok := ins.(*ssa.MapUpdate)
				if !ok {
					continue
				}
				n++
				key := x.recv + ".getValue/install"
				lk := "channels." + x.recv + ".lk"
				if !held[mu][lk+"/W"] {
					r.c.Bad(x.rule, key, r.p.InstrPos(mu), "the cache cell is installed without holding the write lock "+lk)
					continue
				}
				// a lookup of the same map under the write lock whose miss dominates the install
				ok2 := false
				for _, f := range r.p.Facts(fn)[b] {
					var lu ssa.Value
					miss := false
					switch c := f.Cond.(type) {
					case *ssa.BinOp: // value != nil / value == nil
						lu = c.X
						if isNilConst(c.X) {
							lu = c.Y
						}
						a := r.d.NormAtom(c, f.Pol)
						miss = a.Pol && strings.HasSuffix(a.S, "==nil")
					case *ssa.Extract: // ok of comma-ok lookup
						lu = c
						miss = !f.Pol
					}
					if lu == nil || !miss {
						continue
					}
					if ex, ok := lu.(*ssa.Extract); ok {
						lu = ex.Tuple
					}
					if l, ok := lu.(*ssa.Lookup); ok && r.d.Of(l.X) == r.d.Of(mu.Map) && r.d.Of(l.Index) == r.d.Of(mu.Key) && held[l][lk+"/W"] {
						ok2 = true
					}
				}
				r.c.Check(ok2, x.rule, key, r.p.InstrPos(mu), "installed only after a miss re-checked under the write lock", "the cache cell for a key is installed without re-checking, under the write lock, that no other reporter installed one (two concurrent first reporters each get their own high-water mark)")
			}
		}
		r.c.Floor(x.rule, n, 1, "map insertions in "+x.recv+".getValue")
		// the durable read that seeds the cell happens under the same write lock
		// (otherwise a limit / progress change made while the read is in flight is
		// overwritten by the stale value when the cell is installed)
		nr := 0
		for _, ci := range core.CallSites(fn) {
			c := ci.Common()
			if c.IsInvoke() || c.StaticCallee() != nil {
				continue
			}
			if pv, ok := c.Value.(*ssa.Parameter); ok {
				nr++
				lk := "channels." + x.recv + ".lk"
				r.c.Check(held[ci][lk+"/W"], x.rule, x.recv+".getValue/seed-read", r.p.InstrPos(ci), "durable seed read under the write lock",
					"the durable state that seeds the cache ("+pv.Name()+") is read without holding the write lock "+lk+": the value installed afterwards can be stale")
			}
		}
		r.c.Floor(x.rule, nr, 1, "durable seed reads in "+x.recv+".getValue")
	}
}
