// Package rules holds the repository-specific rules, one file per property.
package rules

import (
	"fmt"
	"sort"
	"strings"

	"dtcheck/internal/core"
)

// Rule is the rule set deciding (the structural part of) one property.
type Rule struct {
	Run         func(*core.Ctx)
	Explanation string
}

// Registry maps property ids to rule sets.
var Registry = map[string]*Rule{}

func register(id, explanation string, run func(*core.Ctx)) {
	Registry[id] = &Rule{Run: run, Explanation: explanation}
}

func DumpFSM(p *core.Prog) {
	f := p.ExtractFSM()
	fmt.Println("events with rows:", len(f.Events), "rows:", len(f.Rows), "statuses:", len(f.Statuses), "event codes:", len(f.EventCodes))
	fmt.Println("problems:", f.Problems)
	fmt.Println("cleanup:", f.Cleanup, "finality:", f.Finality, "entry:", f.EntryFuncs)
	for _, r := range f.Rows {
		fmt.Println("  ", r)
	}
	for _, e := range f.Events {
		if fn := f.Action[e]; fn != nil {
			var fs []string
			for k := range p.FieldEffects(fn, 0) {
				fs = append(fs, k)
			}
			sort.Strings(fs)
			fmt.Printf("  action %s writes %s\n", e, strings.Join(fs, ","))
		}
	}
}
