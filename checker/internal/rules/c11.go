package rules

import (
	"fmt"

	"dtcheck/internal/core"
)

func init() {
	register("C11", "Decides the pause bookkeeping structurally: each pause/resume event writes only its own party's flag with the right constant and, in every status, either only records or is rejected (exhaustive over the declared relation; the only status change is ResumeResponder releasing Finalizing); none of them has a FromAny row or a row from a cleanup or terminal status; the derived views are exactly BothPaused = initiator ∧ responder, SelfPaused = flag of the local role, ResponderPaused = flag ∨ Finalizing (decision tables); the six role-mapping helpers choose the event / message kind by the stated peer comparison with the right pause constant; a local pause/resume tells the transport, the counterparty (pause) and records the event, in that order on every path; after the counterparty resumes, ErrPause is returned exactly when the local side is still paused, and the receiver turns ErrPause into a transport pause. Not decided: interleavings at run time; what the transport does when told to pause.",
		func(c *core.Ctx) {
			r := newR(c)
			f := fsmOrStuck(c, "C11.0")
			c11Table(r, f)
			c03Accessor(r)
			c11Views(r)
			c11Roles(r)
			c11Local(r)
			c11StayPaused(r)
			c04Receiver(r)
			c04Update(r)
		})
}

var pauseEvents = map[string]struct {
	field string
	val   string
}{
	"PauseInitiator": {"InitiatorPaused", "true"}, "ResumeInitiator": {"InitiatorPaused", "false"},
	"PauseResponder": {"ResponderPaused", "true"}, "ResumeResponder": {"ResponderPaused", "false"}, "DataLimitExceeded": {"ResponderPaused", "true"},
}

func c11Table(r *R, f *core.FSM) {
	c := r.c
	closed := map[string]bool{}
	for _, s := range f.Cleanup {
		closed[s] = true
	}
	for _, s := range f.Finality {
		closed[s] = true
	}
	for ev, pe := range pauseEvents {
		fn := f.Action[ev]
		if fn == nil {
			c.Stuck("C11.1", "action:"+ev, "", "action of "+ev+" not resolved")
			continue
		}
		sts := storesTo(fn, pe.field)
		ok := len(sts) == 1 && f.ActionD(r.p, ev).Of(sts[0].Val) == pe.val && len(r.p.AtomsAtInstr(sts[0])) == 0
		c.Check(ok, "C11.1", "flag:"+ev, r.p.Pos(fn.Pos()), pe.field+" := "+pe.val, fmt.Sprintf("action of %s does not unconditionally set %s = %s", ev, pe.field, pe.val))
		other := "InitiatorPaused"
		if pe.field == "InitiatorPaused" {
			other = "ResponderPaused"
		}
		c.Check(len(storesTo(fn, other)) == 0, "C11.1", "other-flag:"+ev, r.p.Pos(fn.Pos()), "leaves the other party's flag alone", ev+" also writes "+other)
		rows := f.RowsOf(ev)
		c.Floor("C11.1", len(rows), 4, "rows of "+ev)
		for _, row := range rows {
			key := ev + "/" + row.From
			if row.From == "*" {
				c.Bad("C11.1", "row:"+key, r.p.Pos(row.Pos), ev+" has a FromAny row: a pause/resume in a status where it is meaningless is no longer ignored")
				continue
			}
			if closed[row.From] {
				c.Bad("C11.1", "row:"+key, r.p.Pos(row.Pos), ev+" is accepted in "+row.From+" (a cleanup/terminal status)")
				continue
			}
			if ev == "ResumeResponder" && row.From == "Finalizing" {
				c.Check(row.Kind == "status" && row.To == "Completing", "C11.1", "row:"+key, r.p.Pos(row.Pos), "release of a finalizing responder", "ResumeResponder in Finalizing is "+row.String())
				continue
			}
			c.Check(row.Kind == "record", "C11.1", "row:"+key, r.p.Pos(row.Pos), "only records the flag", "pause/resume event changes or re-enters the status: "+row.String())
		}
		for _, st := range f.Statuses {
			if closed[st] {
				_, ok := f.Lookup(ev, st)
				c.Check(!ok, "C11.1", "ignored:"+ev+"@"+st, "", "rejected in a cleanup/terminal status", ev+" is accepted in "+st)
			}
		}
	}
	// a paused transfer can be paused/resumed in the statuses where data may flow
	for _, ev := range []string{"PauseInitiator", "ResumeInitiator", "PauseResponder", "ResumeResponder"} {
		for _, st := range []string{"Requested", "Queued", "Ongoing", "AwaitingAcceptance"} {
			_, ok := f.Lookup(ev, st)
			c.Check(ok, "C11.1", "accepted:"+ev+"@"+st, "", "accepted while transferring", ev+" is rejected in "+st+": the flag no longer follows the party's action")
		}
	}
}

func c11Views(r *R) {
	bp := r.fn("C11.2", "channels", "channelState", "BothPaused")
	r.table("C11.2", bp, 0, []string{"c.InitiatorPaused()", "c.ResponderPaused()"}, func(a map[string]bool) string {
		return b2s(a["c.InitiatorPaused()"] && a["c.ResponderPaused()"])
	})
	sp := r.fn("C11.2", "channels", "channelState", "SelfPaused")
	r.table("C11.2", sp, 0, []string{"c.ic.Initiator==c.ic.SelfPeer", "c.InitiatorPaused()", "c.ResponderPaused()"}, func(a map[string]bool) string {
		if a["c.ic.Initiator==c.ic.SelfPeer"] {
			return b2s(a["c.InitiatorPaused()"])
		}
		return b2s(a["c.ResponderPaused()"])
	})
	ip := r.fn("C11.2", "channels", "channelState", "InitiatorPaused")
	if ip != nil {
		ps, _ := r.p.Paths(ip)
		r.c.Check(len(ps) == 1 && ps[0].RetDesc(0) == "c.ic.InitiatorPaused", "C11.2", "InitiatorPaused", r.p.Pos(ip.Pos()), "returns the initiator's flag", "InitiatorPaused() does not return the initiator's flag")
	}
}

func c11Roles(r *R) {
	type row struct{ fn, atom, yes, no string }
	for _, x := range []row{
		{"pause", "chid.Initiator==m.peerID", "m.channels.PauseInitiator(chid)", "m.channels.PauseResponder(chid)"},
		{"resume", "chid.Initiator==m.peerID", "m.channels.ResumeInitiator(chid)", "m.channels.ResumeResponder(chid)"},
		{"pauseOther", "chid.Responder==m.peerID", "m.channels.PauseInitiator(chid)", "m.channels.PauseResponder(chid)"},
		{"resumeOther", "chid.Responder==m.peerID", "m.channels.ResumeInitiator(chid)", "m.channels.ResumeResponder(chid)"},
		{"pauseMessage", "chid.Initiator==m.peerID", "dyn:message.UpdateRequest(chid.ID,true)", "dyn:message.UpdateResponse(chid.ID,true)"},
		{"resumeMessage", "chid.Initiator==m.peerID", "dyn:message.UpdateRequest(chid.ID,false)", "dyn:message.UpdateResponse(chid.ID,false)"},
	} {
		x := x
		fn := r.fn("C11.3", "impl", "manager", x.fn)
		r.table("C11.3", fn, 0, []string{x.atom}, func(a map[string]bool) string {
			if a[x.atom] {
				return x.yes
			}
			return x.no
		})
	}
	// message constructors carry the pause flag and id
	for _, name := range []string{"UpdateRequest", "UpdateResponse"} {
		fn := r.fn("C11.3", "message/message1_1prime", "", name)
		if fn == nil {
			continue
		}
		for _, pt := range r.pathsOf("C11.3", fn) {
			flds, _, ok := retFields(pt, 0)
			pf := "Pause"
			if name == "UpdateResponse" {
				pf = "Paused"
			}
			r.c.Check(ok && flds[pf] == "isPaused" && flds["TransferId"] == "id" && flds["MessageType"] == r.msgType("UpdateMessage"), "C11.3", "ctor:"+name, r.p.Pos(fn.Pos()), "carries the pause flag, id and Update type",
				fmt.Sprintf("%s builds a message with %s=%s TransferId=%s MessageType=%s", name, pf, flds[pf], flds["TransferId"], flds["MessageType"]))
		}
	}
}

func c11Local(r *R) {
	fn := r.fn("C11.4", "impl", "manager", "PauseDataTransferChannel")
	if fn != nil {
		n := 0
		for _, pt := range r.pathsOf("C11.4", fn) {
			if pt.End != "return" || !pt.Has("+m.transport.(datatransfer.PauseableTransport)?#1") {
				continue
			}
			n++
			ip := pt.Index(r.p.Is("(datatransfer.PauseableTransport).PauseChannel"))
			is := pt.Index(r.p.Is("(network.DataTransferNetwork).SendMessage"))
			ie := pt.Index(r.p.Is("(*impl.manager).pause"))
			ok := ip >= 0 && is > ip && pt.ArgDesc(pt.Evs[ip], 1) == "chid" && pt.ArgDesc(pt.Evs[is], 1) == "chid.OtherParty(m.peerID)" && pt.ArgDesc(pt.Evs[is], 2) == "m.pauseMessage(chid)"
			sendFailed := is >= 0 && pt.Has("-"+pt.Desc(pt.Evs[is].Instr.(interface{ Name() string }).(ssaValue))+"==nil")
			if ok && !sendFailed {
				ok = ie > is && pt.ArgDesc(pt.Evs[ie], 0) == "chid" && pt.RetDesc(0) == "m.pause(chid)"
			} else if ok {
				ok = ie < 0
			}
			r.c.Check(ok, "C11.4", fmt.Sprintf("pause/path#%d", n), r.p.Pos(fn.Pos()), "transport paused, counterparty told, pause recorded (in that order)", "a local pause does not pause the transport, announce it with the pause message and then record it: "+pt.Describe())
		}
		r.c.Floor("C11.4", n, 2, "paths of PauseDataTransferChannel")
	}
	fr := r.fn("C11.4", "impl", "manager", "ResumeDataTransferChannel")
	if fr != nil {
		n := 0
		for _, pt := range r.pathsOf("C11.4", fr) {
			if pt.End != "return" || !pt.Has("+m.transport.(datatransfer.PauseableTransport)?#1") {
				continue
			}
			n++
			ip := pt.Index(r.p.Is("(datatransfer.PauseableTransport).ResumeChannel"))
			ie := pt.Index(r.p.Is("(*impl.manager).resume"))
			ok := ip >= 0 && ie > ip && pt.ArgDesc(pt.Evs[ip], 1) == "m.resumeMessage(chid)" && pt.ArgDesc(pt.Evs[ip], 2) == "chid" && pt.ArgDesc(pt.Evs[ie], 0) == "chid" && pt.RetDesc(0) == "m.resume(chid)"
			r.c.Check(ok, "C11.4", fmt.Sprintf("resume/path#%d", n), r.p.Pos(fr.Pos()), "transport resumed with the resume message, then resume recorded", "a local resume does not resume the transport with the resume message and then record it: "+pt.Describe())
		}
		r.c.Floor("C11.4", n, 2, "paths of ResumeDataTransferChannel")
	}
}

func c11StayPaused(r *R) {
	// receiveUpdateRequest: exact table
	fn := r.fn("C11.5", "impl", "manager", "receiveUpdateRequest")
	if fn != nil {
		gb := "m.channels.GetByID(_,chid)"
		atoms := []string{"request.IsPaused()", "m.resumeOther(chid)==nil", gb + "#1==nil", gb + "#0.SelfPaused()"}
		r.table("C11.5", fn, 1, atoms, func(a map[string]bool) string {
			switch {
			case a["request.IsPaused()"]:
				return "m.pauseOther(chid)"
			case !a["m.resumeOther(chid)==nil"]:
				return "m.resumeOther(chid)"
			case !a[gb+"#1==nil"]:
				return gb + "#1"
			case a[gb+"#0.SelfPaused()"]:
				return "ErrPause"
			}
			return "nil"
		})
	}
	// OnResponseReceived: on paths that reach the pause/resume tail
	or := r.fn("C11.5", "impl", "manager", "OnResponseReceived")
	if or != nil {
		gbs := r.sites(or, false, "(*channels.Channels).GetByID")
		if len(gbs) != 1 {
			r.c.Stuck("C11.5", "anchor:OnResponseReceived→GetByID", r.p.Pos(or.Pos()), "expected one state read after resumeOther")
			return
		}
		gb := r.v(gbs[0])
		n := 0
		for _, pt := range r.pathsOf("C11.5", or) {
			if pt.End != "return" {
				continue
			}
			nRes := pt.Count(r.p.Is("(*impl.manager).resumeOther"))
			nPau := pt.Count(r.p.Is("(*impl.manager).pauseOther"))
			if nRes == 0 && nPau == 0 {
				r.c.Check(pt.RetDesc(0) != "ErrPause", "C11.5", fmt.Sprintf("OnResponseReceived/other-path#%d", len(r.c.Obs)), r.p.Pos(or.Pos()), "no pause signal on non-update paths", "ErrPause returned on a path that did not process a resume")
				continue
			}
			n++
			key := fmt.Sprintf("OnResponseReceived/update-path#%d", n)
			if nPau > 0 {
				r.c.Check(pt.Has("+response.IsPaused()") && nRes == 0 && pt.RetDesc(0) == "m.pauseOther(chid)", "C11.5", key, r.p.Pos(or.Pos()), "paused response pauses the counterparty's flag", "pauseOther on a path without response.IsPaused(): "+pt.Describe())
				continue
			}
			okGuard := pt.Has("-response.IsPaused()")
			if pt.Has("+m.resumeOther(chid)==nil") {
				// the counterparty's resume was recorded: the transport signal is decided by the
				// local pause state, which must have been read — on every such path
				ret := pt.RetDesc(0)
				var ok bool
				switch {
				case pt.Has("+"+gb+"#1==nil") && pt.Has("+"+gb+"#0.SelfPaused()"):
					ok = ret == "ErrPause"
				case pt.Has("+"+gb+"#1==nil") && pt.Has("-"+gb+"#0.SelfPaused()"):
					ok = ret == "nil"
				case pt.Has("-" + gb + "#1==nil"):
					ok = ret == gb+"#1"
				default:
					ok = false // returned without consulting the local pause state
				}
				r.c.Check(okGuard && ok, "C11.5", key, r.p.Pos(or.Pos()), "ErrPause exactly when the local side is still paused", "after the counterparty resumed, the transport signal is "+ret+" without (or against) the local pause state: "+pt.Describe())
			} else {
				r.c.Check(okGuard && pt.RetDesc(0) != "ErrPause", "C11.5", key, r.p.Pos(or.Pos()), "error path", "ErrPause on an error path")
			}
		}
		r.c.Floor("C11.5", n, 4, "update paths of OnResponseReceived")
	}
	_ = core.Short
}
