package rules

import (
	"encoding/json"
	"fmt"
	"go/ast"
	"os"
	"os/exec"
	"path/filepath"
	"regexp"
	"strconv"
	"strings"

	"dtcheck/internal/core"

	"golang.org/x/tools/go/ssa"
)

func init() {
	register("C19", "Decides totality and consistency of the state view structurally: the Go compiler's own bounds-check-elimination (prove) pass, run on /repo's current package channels, leaves no unproven index or slice bounds check inside any method of the state view (so no accessor can panic on an empty log — defect D1, fixed); the derived views are exactly the stated functions of the record (decision tables: IsPull, ChannelID, OtherPeer, Voucher, LastVoucher, LastVoucherResult incl. the empty case); CreateNew stores the opening voucher as the one-element log and derives the responder as stated; the voucher / voucher-result actions append to their log and nothing else writes those logs outside creation, migration and decoding; the initiator records a voucher and the responder a result only after the send succeeded; a rejection's result is recorded before the channel is failed; received vouchers / results are recorded. Not decided: that every reachable state is constructed only through these paths at run time; decoders of foreign data.",
		func(c *core.Ctx) {
			r := newR(c)
			f := fsmOrStuck(c, "C19.0")
			c19BCE(r)
			c13Copy(r)
			c19Views(r)
			c19Create(r)
			c19Logs(r, f)
			c19RecordAfterSend(r)
			c19Rejection(r)
		})
}

var reBCE = regexp.MustCompile(`^(.+\.go):(\d+):(\d+): Found (IsInBounds|IsSliceInBounds)`)

// c19BCE (E11): ask the compiler which bounds checks it could not prove away.
func c19BCE(r *R) {
	p := r.p
	args := []string{"build", "-gcflags=" + core.Mod + "/channels=-d=ssa/check_bce/debug=1"}
	var tmp string
	if len(p.Overlay) > 0 {
		d, err := os.MkdirTemp("", "dtcheck-bce-")
		if err != nil {
			r.c.Stuck("C19.1", "bce-tmp", "", err.Error())
			return
		}
		tmp = d
		defer os.RemoveAll(tmp)
		rep := map[string]string{}
		i := 0
		for path, content := range p.Overlay {
			f := filepath.Join(tmp, fmt.Sprintf("o%d.go", i))
			i++
			os.WriteFile(f, content, 0o644)
			rep[path] = f
		}
		b, _ := json.Marshal(map[string]interface{}{"Replace": rep})
		ov := filepath.Join(tmp, "overlay.json")
		os.WriteFile(ov, b, 0o644)
		args = append(args, "-overlay", ov)
	}
	args = append(args, "./channels")
	cmd := exec.Command(p.GoBin, args...)
	cmd.Dir = p.Dir
	env := []string{}
	for _, kv := range os.Environ() {
		k := kv[:strings.IndexByte(kv+"=", '=')]
		switch k {
		case "GOFLAGS", "GOPROXY", "GOWORK", "GOTOOLCHAIN", "GOSUMDB":
			continue
		}
		env = append(env, kv)
	}
	cmd.Env = append(env, "GOFLAGS=-mod=mod", "GOPROXY=off", "GOWORK=off", "GOTOOLCHAIN=local", "GOSUMDB=off")
	out, err := cmd.CombinedOutput()
	if err != nil {
		r.c.Stuck("C19.1", "bce-build", "", "go build of package channels failed: "+strings.TrimSpace(string(out)))
		return
	}
	// methods of channelState, by file and line range
	type span struct {
		name       string
		start, end int
	}
	spans := map[string][]span{}
	nMethods := 0
	if pk := p.ByRel["channels"]; pk != nil {
		for _, f := range pk.Syntax {
			file := p.Fset.Position(f.Pos()).Filename
			rel, _ := filepath.Rel(p.Dir, file)
			for _, d := range f.Decls {
				fd, ok := d.(*ast.FuncDecl)
				if !ok || fd.Recv == nil || len(fd.Recv.List) != 1 {
					continue
				}
				t := fd.Recv.List[0].Type
				if st, ok := t.(*ast.StarExpr); ok {
					t = st.X
				}
				if id, ok := t.(*ast.Ident); !ok || id.Name != "channelState" {
					continue
				}
				nMethods++
				spans[rel] = append(spans[rel], span{fd.Name.Name, p.Fset.Position(fd.Pos()).Line, p.Fset.Position(fd.End()).Line})
			}
		}
	}
	r.c.Floor("C19.1", nMethods, 30, "methods of the state view")
	found := map[string][]string{}
	for _, l := range strings.Split(string(out), "\n") {
		m := reBCE.FindStringSubmatch(strings.TrimSpace(l))
		if m == nil {
			continue
		}
		line, _ := strconv.Atoi(m[2])
		for _, sp := range spans[m[1]] {
			if line >= sp.start && line <= sp.end {
				found[sp.name] = append(found[sp.name], fmt.Sprintf("%s:%s", m[1], m[2]))
			}
		}
	}
	for _, sps := range spans {
		for _, sp := range sps {
			if locs, bad := found[sp.name]; bad {
				r.c.Bad("C19.1", "channels.channelState."+sp.name, locs[0], "accessor "+sp.name+" contains an index/slice operation the compiler cannot prove in bounds ("+strings.Join(locs, ", ")+"): it panics on a state with an empty log")
			} else {
				r.c.OK("C19.1", "channels.channelState."+sp.name, "", "no unproven bounds check")
			}
		}
	}
	r.c.Stats["bce_cmd"] = "go " + strings.Join(args, " ")
}

func c19Views(r *R) {
	ip := r.fn("C19.2", "channels", "channelState", "IsPull")
	r.table("C19.2", ip, 0, []string{"c.ic.Initiator==c.ic.Recipient"}, func(a map[string]bool) string { return b2s(a["c.ic.Initiator==c.ic.Recipient"]) })
	ci := r.fn("C19.2", "channels", "channelState", "ChannelID")
	r.table("C19.2", ci, 0, []string{"c.IsPull()"}, func(a map[string]bool) string {
		if a["c.IsPull()"] {
			return "datatransfer.ChannelID{ID:c.ic.TransferID,Initiator:c.ic.Recipient,Responder:c.ic.Sender}"
		}
		return "datatransfer.ChannelID{ID:c.ic.TransferID,Initiator:c.ic.Sender,Responder:c.ic.Recipient}"
	})
	op := r.fn("C19.2", "channels", "channelState", "OtherPeer")
	r.table("C19.2", op, 0, []string{"c.ic.SelfPeer==c.ic.Sender"}, func(a map[string]bool) string {
		if a["c.ic.SelfPeer==c.ic.Sender"] {
			return "c.ic.Recipient"
		}
		return "c.ic.Sender"
	})
	for _, x := range []struct{ fn, log, idx, node string }{
		{"Voucher", "Vouchers", "0:int", "Voucher"},
		{"LastVoucher", "Vouchers", "(dyn:len(c.ic.Vouchers)-1:int)", "Voucher"},
		{"LastVoucherResult", "VoucherResults", "(dyn:len(c.ic.VoucherResults)-1:int)", "VoucherResult"},
	} {
		x := x
		fn := r.fn("C19.2", "channels", "channelState", x.fn)
		atom := "0:int==dyn:len(c.ic." + x.log + ")"
		r.table("C19.2", fn, 0, []string{atom}, func(a map[string]bool) string {
			if a[atom] {
				return "zero:datatransfer.TypedVoucher"
			}
			el := "c.ic." + x.log + "[" + x.idx + "]"
			return "datatransfer.TypedVoucher{Type:" + el + ".Type,Voucher:" + el + "." + x.node + ".Node}"
		})
	}
}

func c19Create(r *R) {
	fn := r.fn("C19.3", "channels", "Channels", "CreateNew")
	if fn == nil {
		return
	}
	bg := r.one("C19.3", fn, "(github.com/filecoin-project/go-statemachine/fsm.Group).Begin")
	if bg == nil {
		return
	}
	// the record literal
	var rec *ssa.Alloc
	if a, ok := core.Arg(bg.Common(), 1).(*ssa.MakeInterface); ok {
		rec, _ = a.X.(*ssa.Alloc)
	}
	if rec == nil {
		r.c.Stuck("C19.3", "record-literal", r.p.InstrPos(bg), "the initial record is not a struct literal")
		return
	}
	n := 0
	for _, pt := range r.pathsOf("C19.3", fn) {
		if !pt.PassesThrough(bg.Block()) || pt.End != "return" {
			continue
		}
		n++
		key := fmt.Sprintf("CreateNew/path#%d", n)
		vals := map[string]string{}
		for name, sts := range litStores(rec) {
			for _, st := range sts {
				if pt.PassesThrough(st.Block()) {
					vals[name] = pt.Desc(st.Val)
				}
			}
		}
		resp := "dataSender"
		if pt.Has("+dataSender==initiator") {
			resp = "dataReceiver"
		}
		want := map[string]string{"SelfPeer": "selfPeer", "TransferID": "tid", "Initiator": "initiator", "Responder": resp, "BaseCid": "baseCid", "Sender": "dataSender", "Recipient": "dataReceiver", "Status": "Requested"}
		for f, w := range want {
			r.c.Check(vals[f] == w, "C19.3", key+"/"+f, r.p.Pos(fn.Pos()), f+" = "+w, fmt.Sprintf("the new record's %s is %s, expected %s", f, vals[f], w))
		}
		v := vals["Vouchers"]
		okV := v == "[{Type:voucher.Type,Voucher.Node:voucher.Voucher}]"
		r.c.Check(okV, "C19.3", key+"/Vouchers", r.p.Pos(fn.Pos()), "voucher log starts with exactly the opening voucher", "the new record's voucher log is "+v)
		r.c.Check(vals["Selector.Node"] == "selector", "C19.3", key+"/Selector", r.p.Pos(fn.Pos()), "selector stored", "the new record's selector is "+vals["Selector.Node"])
	}
	r.c.Floor("C19.3", n, 2, "paths of CreateNew through Begin")
}

func c19Logs(r *R, f *core.FSM) {
	for ev, fld := range map[string]string{"NewVoucher": "Vouchers", "NewVoucherResult": "VoucherResults"} {
		fn := f.Action[ev]
		if fn == nil || len(fn.Params) != 2 {
			r.c.Stuck("C19.4", "action:"+ev, "", "action not resolved")
			continue
		}
		sts := storesTo(fn, fld)
		ok := len(sts) == 1
		val := ""
		if ok {
			val = r.d.Of(sts[0].Val)
			arg := core.ParamName(fn.Params[1])
			ok = strings.HasPrefix(val, "dyn:append(chst."+fld+",[") && strings.Contains(val, "Type:"+arg+".Type") && strings.Contains(val, "Node:"+arg+".Voucher") && len(r.p.AtomsAtInstr(sts[0])) == 0
		}
		r.c.Check(ok, "C19.4", "append:"+ev, r.p.Pos(fn.Pos()), fld+" = append("+fld+", the new entry)", "the "+ev+" action does not append the new entry to "+fld+" (stores "+val+")")
	}
	// who writes the logs
	allowed := map[string]bool{"(*channels.Channels).CreateNew": true, "channels/internal/migrations.MigrateChannelState2To3": true, "(*channels/internal.ChannelState).UnmarshalCBOR": true}
	n := 0
	for _, fn := range r.p.Prod {
		for _, b := range fn.Blocks {
			for _, ins := range b.Instrs {
				st, ok := ins.(*ssa.Store)
				if !ok {
					continue
				}
				fa, ok := st.Addr.(*ssa.FieldAddr)
				if !ok {
					continue
				}
				owner, fld := core.FieldOwner(fa)
				if owner != "channels/internal.ChannelState" || (fld != "Vouchers" && fld != "VoucherResults") {
					continue
				}
				n++
				name := core.ShortFn(core.TopLevel(fn))
				isAction := fn == f.Action["NewVoucher"] || fn == f.Action["NewVoucherResult"]
				r.c.Check(allowed[name] || isAction, "C19.4", "log-writer:"+fld+"@"+core.ShortFn(fn), r.p.InstrPos(st), "confirmed writer of the log", core.ShortFn(fn)+" writes "+fld+" (the logs are append-only through the NewVoucher / NewVoucherResult actions)")
			}
		}
	}
	r.c.Floor("C19.4", n, 4, "stores to the voucher logs")
	// slices handed out are copies: Vouchers()/VoucherResults() build new slices
	for _, name := range []string{"Vouchers", "VoucherResults"} {
		fn := r.p.Func("channels", "channelState", name)
		if fn == nil {
			continue
		}
		mk := false
		for _, b := range fn.Blocks {
			for _, ins := range b.Instrs {
				if _, ok := ins.(*ssa.MakeSlice); ok {
					mk = true
				}
			}
		}
		r.c.Check(mk, "C19.4", "copy:"+name, r.p.Pos(fn.Pos()), "returns a fresh slice", name+"() hands out the internal log")
	}
}

func c19RecordAfterSend(r *R) {
	for _, x := range []struct{ fn, rec string }{{"SendVoucher", "(*channels.Channels).NewVoucher"}, {"SendVoucherResult", "(*channels.Channels).NewVoucherResult"}} {
		fn := r.fn("C19.5", "impl", "manager", x.fn)
		if fn == nil {
			continue
		}
		// per path (a send helper introduced later is walked through): the entry is
		// recorded after a send of the message to the counterparty that was found to
		// have succeeded, on the channel it was sent for, exactly once
		paths := r.pathsOf("C19.5", fn)
		isSend := r.p.Is("(network.DataTransferNetwork).SendMessage")
		sendOK := func(pt *core.Path, before ssa.Instruction) bool {
			for _, ev := range pt.Evs {
				if isSend(ev) && pt.Precedes(ev.Instr, before) && pt.HasBefore(before, "+"+pt.Desc(ev.Instr.(ssa.Value))+"==nil") {
					return true
				}
			}
			return false
		}
		r.guardedOnPaths("C19.5", fn, paths, x.rec, 1, func(pt *core.Path, ev core.Ev) []string {
			if !sendOK(pt, ev.Instr) {
				return []string{"+<the message was sent successfully>"}
			}
			if pt.ArgDesc(ev, 0) != "channelID" {
				return []string{"+<recorded on the channel the message was sent for>"}
			}
			return nil
		})
		// exactly once on the success path
		n := 0
		for _, pt := range paths {
			if pt.End != "return" || pt.Ret == nil {
				continue
			}
			if sendOK(pt, pt.Ret) {
				n++
				r.c.Check(pt.Count(r.p.Is(x.rec)) == 1, "C19.5", fmt.Sprintf("%s/once#%d", x.fn, n), r.p.Pos(fn.Pos()), "recorded exactly once after a successful send", "a sent voucher/result is not recorded exactly once: "+pt.Describe())
			}
		}
		r.c.Floor("C19.5", n, 1, "successful-send paths of "+x.fn)
	}
}

func c19Rejection(r *R) {
	// the logs are written from these places only; the two recording helpers run only
	// where the caller also answers the initiator with the result (C04.1/C04.6/C04.7
	// decide that the reply carries it), so a responder never records a result it did not send
	r.onlyCallers("C19.6", "(*channels.Channels).NewVoucherResult", 4, "(*impl.manager).SendVoucherResult", "(*impl.manager).recordRejectedValidationEvents", "(*impl.manager).recordAcceptedValidationEvents", "(*impl.manager).OnResponseReceived")
	r.onlyCallers("C19.6", "(*channels.Channels).NewVoucher", 2, "(*impl.manager).SendVoucher", "(*impl.manager).processUpdateVoucher")
	r.onlyCallers("C19.6", "(*impl.manager).recordAcceptedValidationEvents", 3, "(*impl.manager).acceptRequest", "(*impl.manager).restartRequest", "(*impl.manager).processValidationUpdate")
	r.onlyCallers("C19.6", "(*impl.manager).recordRejectedValidationEvents", 2, "(*impl.manager).restartRequest", "(*impl.manager).processValidationUpdate")
	fn := r.fn("C19.6", "impl", "manager", "recordRejectedValidationEvents")
	if fn != nil {
		n := 0
		for _, pt := range r.pathsOf("C19.6", fn) {
			if pt.End != "return" {
				continue
			}
			iv := pt.Index(r.p.Is("(*channels.Channels).NewVoucherResult"))
			ie := pt.Index(r.p.Is("(*channels.Channels).Error"))
			if pt.Has("-result.VoucherResult==nil") {
				n++
				ok := iv >= 0 && pt.ArgDesc(pt.Evs[iv], 0) == "chid" && pt.ArgDesc(pt.Evs[iv], 1) == "*result.VoucherResult" && (ie < 0 || iv < ie)
				r.c.Check(ok, "C19.6", fmt.Sprintf("rejection-result-recorded#%d", n), r.p.Pos(fn.Pos()), "the rejection's voucher result is recorded before the channel is failed", "a rejection's voucher result is dropped (or recorded after the channel failed): "+pt.Describe())
			} else {
				r.c.Check(iv < 0, "C19.6", fmt.Sprintf("no-result#%d", len(r.c.Obs)), r.p.Pos(fn.Pos()), "nothing recorded without a result", "a voucher result is recorded although the validator gave none")
			}
		}
		if n == 0 {
			r.c.Bad("C19.6", "rejection-result-recorded", r.p.Pos(fn.Pos()), "recordRejectedValidationEvents never records the validator's voucher result: the result of a rejection is dropped")
		}
	}
	pu := r.fn("C19.6", "impl", "manager", "processUpdateVoucher")
	if pu != nil && len(r.sites(pu, false, "(*channels.Channels).NewVoucher")) == 0 {
		r.c.Bad("C19.6", "received-voucher-recorded", r.p.Pos(pu.Pos()), "processUpdateVoucher does not record the voucher it received")
	} else if pu != nil {
		tv := r.one("C19.6", pu, "(datatransfer.Request).TypedVoucher")
		if tv != nil {
			for _, s := range r.guardedCalls("C19.6", pu, false, "(*channels.Channels).NewVoucher", 1, "+"+r.v(tv)+"#1==nil") {
				r.argIs("C19.6", s, 0, "chid", "channel")
				r.argIs("C19.6", s, 1, r.v(tv)+"#0", "the received voucher")
			}
		}
	}
	or := r.fn("C19.6", "impl", "manager", "OnResponseReceived")
	if or != nil {
		vr := r.one("C19.6", or, "(datatransfer.Response).VoucherResult")
		if vr != nil {
			for _, s := range r.guardedCalls("C19.6", or, false, "(*channels.Channels).NewVoucherResult", 1, "+response.IsValidationResult()", "-response.EmptyVoucherResult()", "+"+r.v(vr)+"#1==nil") {
				got := r.dOf(s.(ssa.Instruction)).Of(core.Arg(s.Common(), 1))
				r.c.Check(got == "datatransfer.TypedVoucher{Type:response.VoucherResultType(),Voucher:"+r.v(vr)+"#0}", "C19.6", "OnResponseReceived/result-recorded", r.p.InstrPos(s), "the received result and its type are recorded", "the initiator records "+got)
			}
			// recorded before acting on Accepted()
			n := 0
			for _, pt := range r.pathsOf("C19.6", or) {
				if !pt.Has("-response.EmptyVoucherResult()") || !pt.Has("+"+r.v(vr)+"#1==nil") {
					continue
				}
				iv := pt.Index(r.p.Is("(*channels.Channels).NewVoucherResult"))
				ie := pt.Index(r.p.Is("(*channels.Channels).Error"))
				if ie >= 0 {
					n++
					if n <= 4 || !(iv >= 0 && iv < ie) {
						r.c.Check(iv >= 0 && iv < ie, "C19.6", fmt.Sprintf("OnResponseReceived/result-before-reject#%d", n), r.p.Pos(or.Pos()), "a rejection's result is recorded before the channel is failed", "the initiator fails the channel before recording the responder's result")
					}
				}
			}
			r.c.Floor("C19.6", n, 1, "rejected-response paths carrying a result")
		}
	}
}
