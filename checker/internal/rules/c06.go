package rules

import (
	"fmt"
	"strings"

	"dtcheck/internal/core"

	"golang.org/x/tools/go/ssa"
)

func init() {
	register("C06", "Decides the necessary conditions of durability that live in this repository: the generated CBOR codecs of the persisted record and its parts write and read every struct field under the same key / position and announce the right entry count (field-set agreement over the type-checked syntax tree, so a field added without regenerating is caught); state queries read through the flushing GetSync / List; every accessor of the state view returns its own record field; record fields are written only inside FSM actions, the creation literal, the migration and the decoders (who-may-write over SSA stores); a channel persisted while cleaning up is finished on restart (the restart branch, the NoChange row and the entry functions). Not decided: atomicity and ordering of datastore writes at crash points, 'exactly a prefix' — that is go-statemachine's Mutate plus the datastore.",
		func(c *core.Ctx) {
			r := newR(c)
			f := fsmOrStuck(c, "C06.0")
			c.Assumption("go-statemachine persists the mutated state after every planned event and GetSync flushes queued events before reading (DESIGN §2)")
			for _, t := range []string{"ChannelState", "EncodedVoucher", "EncodedVoucherResult"} {
				codecAgreement(r, "C06.1", "channels/internal", t)
			}
			for _, t := range []string{"ChannelID", "ChannelStages", "ChannelStage", "Log"} {
				codecAgreement(r, "C06.1", "", t)
			}
			c06NodeCodec(r)
			c06Reads(r)
			c06Accessors(r)
			c06Writers(r, f)
			c06Cleanup(r, f)
		})
}

func c06Reads(r *R) {
	gb := r.fn("C06.2", "channels", "Channels", "GetByID")
	if gb != nil {
		n := len(r.sites(gb, false, "(github.com/filecoin-project/go-statemachine/fsm.Group).GetSync"))
		bad := len(r.sites(gb, false, "(github.com/filecoin-project/go-statemachine/fsm.Group).Get"))
		r.c.Check(n == 1 && bad == 0, "C06.2", "GetByID", r.p.Pos(gb.Pos()), "reads through GetSync (flushes queued events)", "GetByID does not read through GetSync: a returned state may not be durable yet")
		if s := r.one("C06.2", gb, "(github.com/filecoin-project/go-statemachine/fsm.Group).GetSync"); s != nil {
			r.argIs("C06.2", s, 1, "chid", "the channel read")
			// every path that hands out a state read it through that flushing call
			n := 0
			for _, pt := range r.pathsOf("C06.2", gb) {
				if pt.End != "return" || pt.RetDesc(0) == "nil" {
					continue
				}
				n++
				ok := pt.Count(r.p.Is("(github.com/filecoin-project/go-statemachine/fsm.Group).GetSync")) == 1 && pt.Has("+"+pt.Desc(s.Value())+"==nil")
				r.c.Check(ok, "C06.2", fmt.Sprintf("GetByID/state-path#%d", n), r.p.Pos(gb.Pos()), "state handed out only after a successful flushing read", "GetByID hands out a state that was not read through GetSync (e.g. from a cache): it may not be durable: "+pt.Describe())
			}
			r.c.Floor("C06.2", n, 1, "state-returning paths of GetByID")
		}
	}
	ip := r.fn("C06.2", "channels", "Channels", "InProgress")
	if ip != nil {
		r.c.Check(len(r.sites(ip, false, "(github.com/filecoin-project/go-statemachine/fsm.Group).List")) == 1, "C06.2", "InProgress", r.p.Pos(ip.Pos()), "lists through the state machine group", "InProgress does not list the stored channels through the state machine group")
	}
}

// frozen accessor → field table (confirmed by reading channel_state.go)
var accessorTable = map[string]string{
	"Status": "Status", "Queued": "Queued", "Sent": "Sent", "Received": "Received", "TransferID": "TransferID", "BaseCID": "BaseCid",
	"ReceivedCidsTotal": "ReceivedBlocksTotal", "QueuedCidsTotal": "QueuedBlocksTotal", "SentCidsTotal": "SentBlocksTotal",
	"Sender": "Sender", "Recipient": "Recipient", "TotalSize": "TotalSize", "Message": "Message", "SelfPeer": "SelfPeer",
	"DataLimit": "DataLimit", "RequiresFinalization": "RequiresFinalization", "InitiatorPaused": "InitiatorPaused",
}

func c06Accessors(r *R) {
	acc := accessorField(r)
	for a, f := range accessorTable {
		got, ok := acc[a]
		site := ""
		if fn := r.p.Func("channels", "channelState", a); fn != nil {
			site = r.p.Pos(fn.Pos())
		}
		if !ok {
			got = "<not a single-field accessor>"
		}
		r.c.Check(got == f, "C06.3", "accessor:"+a, site, "returns record field "+f, fmt.Sprintf("accessor %s() returns %s, expected the record's %s field: the view differs from the durable state", a, got, f))
	}
	sel := r.p.Func("channels", "channelState", "Selector")
	if sel != nil {
		ps, _ := r.p.Paths(sel)
		r.c.Check(len(ps) == 1 && ps[0].RetDesc(0) == "c.ic.Selector.Node", "C06.3", "accessor:Selector", r.p.Pos(sel.Pos()), "returns the stored selector node", "Selector() does not return the stored selector")
	}
	// the view is built from the record it is given
	fi := r.fn("C06.3", "channels", "", "fromInternalChannelState")
	if fi != nil {
		ps, _ := r.p.Paths(fi)
		ok := len(ps) == 1 && strings.Contains(ps[0].RetDesc(0), "ic:c")
		r.c.Check(ok, "C06.3", "fromInternalChannelState", r.p.Pos(fi.Pos()), "view wraps the given record", "fromInternalChannelState does not wrap the record it is given")
	}
}

func c06Writers(r *R, f *core.FSM) {
	actionFns := map[*ssa.Function]bool{}
	for _, a := range f.Action {
		actionFns[a] = true
	}
	allowed := map[string]string{
		"(*channels.Channels).CreateNew":                       "initial record literal",
		"channels/internal/migrations.MigrateChannelState2To3": "schema migration",
		"(*channels/internal.ChannelState).UnmarshalCBOR":      "generated decoder",
	}
	n := 0
	seen := map[string]bool{}
	for _, fn := range r.p.Prod {
		for _, b := range fn.Blocks {
			for _, ins := range b.Instrs {
				st, ok := ins.(*ssa.Store)
				if !ok {
					continue
				}
				fa, ok := st.Addr.(*ssa.FieldAddr)
				if !ok {
					continue
				}
				owner, fld := core.FieldOwner(fa)
				if owner != "channels/internal.ChannelState" {
					continue
				}
				n++
				name := core.ShortFn(core.TopLevel(fn))
				key := "writer:" + name + "/" + fld
				if actionFns[fn] {
					key = "writer:action/" + fld
				}
				if seen[key] {
					continue
				}
				seen[key] = true
				_, ok = allowed[name]
				r.c.Check(ok || actionFns[fn], "C06.4", key, r.p.InstrPos(st), "record field written by a confirmed writer", name+" writes field "+fld+" of the persisted record outside the FSM's actions: the mutation bypasses the persisted event path")
			}
		}
	}
	r.c.Floor("C06.4", n, 40, "stores to fields of internal.ChannelState")
}

func c06Cleanup(r *R, f *core.FSM) {
	// CompleteCleanupOnRestart must re-run the entry function: FromAny → NoChange (not JustRecord)
	for _, st := range f.Cleanup {
		row, ok := f.Lookup("CompleteCleanupOnRestart", st)
		r.c.Check(ok && row.Kind == "nochange", "C06.5", "CompleteCleanupOnRestart@"+st, r.p.Pos(row.Pos), "re-runs the cleanup entry function", "CompleteCleanupOnRestart in "+st+" is "+row.String()+": the entry function is not re-run, a channel persisted while cleaning up never finishes")
		_, has := f.EntryFuncs[st]
		r.c.Check(has, "C06.5", "entry-func@"+st, "channels/channels_fsm.go", "cleanup status has an entry function", "cleanup status "+st+" has no entry function")
	}
	var keys []string
	for k := range f.EntryFuncs {
		keys = append(keys, k)
	}
	r.c.Check(sameSet(keys, f.Cleanup), "C06.5", "CleanupStates=entry-funcs", "channels/channels_fsm.go", "CleanupStates = keys of ChannelStateEntryFuncs", "CleanupStates {"+join(f.Cleanup)+"} differs from the statuses with entry functions {"+join(keys)+"}")
	fn := r.fn("C06.5", "impl", "manager", "RestartDataTransferChannel")
	if fn != nil {
		gb := r.one("C06.5", fn, "(*channels.Channels).GetByID")
		if gb != nil {
			cl := "channels.IsChannelCleaningUp(" + r.v(gb) + "#0.Status())"
			for _, s := range r.guardedCalls("C06.5", fn, false, "(*channels.Channels).CompleteCleanupOnRestart", 1, "+"+cl) {
				r.argIs("C06.5", s, 0, r.v(gb)+"#0.ChannelID()", "the channel whose cleanup is finished")
			}
			n := 0
			for _, pt := range r.pathsOf("C06.5", fn) {
				if !pt.Has("+" + cl) {
					continue
				}
				n++
				idx := pt.Index(r.p.Is("(*channels.Channels).CompleteCleanupOnRestart"))
				ok := idx >= 0 && pt.RetDesc(0) == r.d.Of(pt.Evs[idx].Instr.(ssa.Value)) && pt.Count(r.p.Is(restartActs[1:]...)) == 0
				r.c.Check(ok, "C06.5", fmt.Sprintf("cleaning-up-path#%d", n), r.p.Pos(fn.Pos()), "restart of a cleaning-up channel only finishes the cleanup", "restart of a channel that is cleaning up does not (only) finish the cleanup: "+pt.Describe())
			}
			r.c.Floor("C06.5", n, 1, "cleaning-up paths of RestartDataTransferChannel")
			// nothing returns before the cleaning-up question is asked, except "not found" and "terminated"
			term := "channels.IsChannelTerminated(" + r.v(gb) + "#0.Status())"
			for i, pt := range r.pathsOf("C06.5", fn) {
				if pt.End != "return" {
					continue
				}
				asked := pt.Has("+"+cl) || pt.Has("-"+cl)
				excused := pt.Has("-"+r.v(gb)+"#1==nil") || pt.Has("+"+term)
				if !asked && !excused {
					r.c.Bad("C06.5", fmt.Sprintf("returns-before-cleanup-check#%d", i+1), r.p.Pos(fn.Pos()), "RestartDataTransferChannel returns before checking whether the channel is cleaning up: a channel persisted in a cleanup status is never finished on this path: "+pt.Describe())
				}
			}
		}
	}
	_ = core.Short
}

// c06NodeCodec (C06.1): IPLD nodes stored in the record are written in their
// representation form (what the decoder rebuilds), null for none.
func c06NodeCodec(r *R) {
	fn := r.fn("C06.1", "channels/internal", "CborGenCompatibleNode", "MarshalCBOR")
	if fn != nil {
		enc := r.p.Is("github.com/ipld/go-ipld-prime/codec/dagcbor.Encode")
		tn := "sn.Node.(github.com/ipld/go-ipld-prime/schema.TypedNode)?"
		n := 0
		for _, pt := range r.pathsOf("C06.1", fn) {
			if pt.End != "return" {
				continue
			}
			n++
			idx := pt.Index(enc)
			key := fmt.Sprintf("node-marshal/path#%d", n)
			if idx < 0 || pt.Count(enc) != 1 {
				r.c.Bad("C06.1", key, r.p.Pos(fn.Pos()), "a stored node is not encoded exactly once: "+pt.Describe())
				continue
			}
			got := pt.ArgDesc(pt.Evs[idx], 0)
			want := "github.com/ipld/go-ipld-prime/datamodel.Null"
			switch {
			case pt.Has("+sn==nil") || pt.Has("+sn.Node==nil"):
			case pt.Has("+" + tn + "#1"):
				want = tn + "#0.Representation()"
			case pt.Has("-" + tn + "#1"):
				want = "sn.Node"
			default:
				want = "<typed nodes not distinguished>"
			}
			r.c.Check(got == want && pt.ArgDesc(pt.Evs[idx], 1) == "w", "C06.1", key, r.p.Pos(fn.Pos()), "encodes "+want,
				"a stored IPLD node is encoded as "+got+" where "+want+" is required (typed nodes must be written in their representation form, otherwise the reopened voucher/selector differs from what was recorded)")
		}
		r.c.Floor("C06.1", n, 3, "paths of CborGenCompatibleNode.MarshalCBOR")
	}
	un := r.fn("C06.1", "channels/internal", "CborGenCompatibleNode", "UnmarshalCBOR")
	if un != nil {
		n := 0
		for _, pt := range r.pathsOf("C06.1", un) {
			if pt.End != "return" || pt.RetDesc(0) != "nil" {
				continue
			}
			n++
			st := pt.StoresTo("sn.Node")
			ok := len(st) == 1 && strings.HasSuffix(st[0], ".Build()") && pt.Count(r.p.Is("github.com/ipld/go-ipld-prime/codec/dagcbor.Decode")) == 1
			r.c.Check(ok, "C06.1", fmt.Sprintf("node-unmarshal/path#%d", n), r.p.Pos(un.Pos()), "decoded node stored", "UnmarshalCBOR succeeds without storing the decoded node")
		}
		r.c.Floor("C06.1", n, 1, "success paths of CborGenCompatibleNode.UnmarshalCBOR")
	}
}
