package rules

import (
	"fmt"
	"go/types"
	"sort"
	"strings"

	"dtcheck/internal/core"

	"golang.org/x/tools/go/ssa"
)

// Lock-order analysis (DESIGN E7d): edge L1→L2 whenever L2 is acquired —
// directly or through the completed call graph, not across go statements —
// while L1 is in the must-hold set. Self-edges (re-entrancy of a
// non-reentrant mutex) and cycles are deadlocks.

type lockEdge struct{ a, b string }

type lockGraph struct {
	edges   map[lockEdge]string // witness
	sites   map[lockEdge]string
	acquire map[*ssa.Function]map[string]*ssa.Function // fn → lock → next callee on a path that acquires it (nil = direct)
	// final[fn][lock][acquirer] = next hop: every function that directly
	// acquires lock and is synchronously reachable from fn
	final    map[*ssa.Function]map[string]map[*ssa.Function]*ssa.Function
	selfs    map[string]string // "lock|holder→acquirer" → witness
	selfSite map[string]string
	nFuncs   int
	// pubsub model: dispatcher functions and module subscribers found
	nDispatchers, nModSubs int
	// callbacks made while a lock is held: "lock | caller → callee"
	callbacksUnderLock []string
	// call sites left out because the caller's facts about a message rule them out
	pruned []string
}

// userStubs: what client-supplied callbacks may call back into (DESIGN §3).
// A subscriber may call these Manager methods from inside the callback.
var subscriberMayCall = [][3]string{
	{"impl", "manager", "ChannelState"}, {"impl", "manager", "SendVoucher"}, {"impl", "manager", "SendVoucherResult"}, {"impl", "manager", "UpdateValidationStatus"},
	{"impl", "manager", "PauseDataTransferChannel"}, {"impl", "manager", "ResumeDataTransferChannel"}, {"impl", "manager", "CloseDataTransferChannel"},
	{"impl", "manager", "TransferChannelStatus"}, {"impl", "manager", "InProgressChannels"},
}

// psLock models the one lock of the event pubsub (a dependency, so its body is
// not analysed): Publish holds it (shared) while the dispatcher calls each
// subscriber; Subscribe and the returned Unsubscribe function take it
// exclusively. Confirmed by reading go-pubsub pubsub.go (trusted version).
const psLock = "go-pubsub.PubSub.subscribersLk"

// isPubsubAcquire: a call that takes the pubsub lock exclusively.
func isPubsubAcquire(p *core.Prog, c *ssa.CallCommon) bool {
	if p.CalleeName(c) == "(*github.com/hannahhoward/go-pubsub.PubSub).Subscribe" {
		return true
	}
	if !c.IsInvoke() && c.StaticCallee() == nil {
		if _, isBuiltin := c.Value.(*ssa.Builtin); !isBuiltin {
			t := core.TypeShort(c.Value.Type())
			return t == "datatransfer.Unsubscribe" || t == "github.com/hannahhoward/go-pubsub.Unsubscribe"
		}
	}
	return false
}

// pubsubDispatchers: the functions handed to pubsub.New; Publish runs them
// with the pubsub lock held.
func pubsubDispatchers(p *core.Prog) map[*ssa.Function]bool {
	out := map[*ssa.Function]bool{}
	for _, f := range p.Prod {
		for _, ci := range core.CallSites(f) {
			if p.CalleeName(ci.Common()) != "github.com/hannahhoward/go-pubsub.New" || len(ci.Common().Args) == 0 {
				continue
			}
			v := ci.Common().Args[0]
			for i := 0; i < 4; i++ {
				switch x := v.(type) {
				case *ssa.ChangeType:
					v = x.X
				case *ssa.MakeClosure:
					v = x.Fn
				}
			}
			if fn, ok := v.(*ssa.Function); ok {
				out[fn] = true
			}
		}
	}
	return out
}

// moduleSubscribers: functions of the module registered as event subscribers
// (passed to a SubscribeToEvents call); the dispatcher calls them like any
// client subscriber.
func moduleSubscribers(p *core.Prog) []*ssa.Function {
	seen := map[*ssa.Function]bool{}
	var out []*ssa.Function
	for _, f := range p.Prod {
		for _, ci := range core.CallSites(f) {
			c := ci.Common()
			if !strings.HasSuffix(p.CalleeName(c), ".SubscribeToEvents") {
				continue
			}
			for _, a := range c.Args {
				v := a
				for i := 0; i < 4; i++ {
					switch x := v.(type) {
					case *ssa.ChangeType:
						v = x.X
					case *ssa.MakeInterface:
						v = x.X
					case *ssa.MakeClosure:
						v = x.Fn
					}
				}
				if fn, ok := v.(*ssa.Function); ok {
					fn = core.Unwrap(fn)
					if p.InProd(fn) && len(fn.Blocks) > 0 && !seen[fn] {
						seen[fn] = true
						out = append(out, fn)
					}
				}
			}
		}
	}
	sort.Slice(out, func(i, j int) bool { return out[i].String() < out[j].String() })
	return out
}

func buildLockGraph(r *R) *lockGraph {
	p := r.p
	g := p.CG()
	lg := &lockGraph{edges: map[lockEdge]string{}, sites: map[lockEdge]string{}, acquire: map[*ssa.Function]map[string]*ssa.Function{},
		final: map[*ssa.Function]map[string]map[*ssa.Function]*ssa.Function{}, selfs: map[string]string{}, selfSite: map[string]string{}}
	fns := p.Prod
	lg.nFuncs = len(fns)
	// synchronous callees per function (call, defer, joined errgroup; not go)
	syncOut := map[*ssa.Function][]core.Edge{}
	for _, f := range fns {
		for _, e := range g.Out[f] {
			if e.Async {
				continue
			}
			syncOut[f] = append(syncOut[f], e)
		}
	}
	// user callback stubs: a call of a datatransfer.Subscriber value may re-enter the manager API
	var stubTargets []*ssa.Function
	for _, t := range subscriberMayCall {
		if f := p.Func(t[0], t[1], t[2]); f != nil {
			stubTargets = append(stubTargets, f)
		}
	}
	dispatchers := pubsubDispatchers(p)
	modSubs := moduleSubscribers(p)
	lg.nDispatchers, lg.nModSubs = len(dispatchers), len(modSubs)
	isSubscriberCall := func(ci ssa.CallInstruction) bool {
		c := ci.Common()
		if c.IsInvoke() || c.StaticCallee() != nil {
			return false
		}
		return core.TypeShort(c.Value.Type()) == "datatransfer.Subscriber"
	}
	for _, f := range fns {
		for _, ci := range core.CallSites(f) {
			if _, isGo := ci.(*ssa.Go); isGo {
				continue
			}
			if isSubscriberCall(ci) {
				for _, t := range stubTargets {
					syncOut[f] = append(syncOut[f], core.Edge{Site: ci.(ssa.Instruction), Callee: t, Kind: "user-callback"})
				}
				if dispatchers[f] {
					for _, t := range modSubs {
						syncOut[f] = append(syncOut[f], core.Edge{Site: ci.(ssa.Instruction), Callee: t, Kind: "module-subscriber"})
					}
				}
			}
		}
	}
	// direct acquisitions
	for _, f := range fns {
		lg.acquire[f] = map[string]*ssa.Function{}
		lg.final[f] = map[string]map[*ssa.Function]*ssa.Function{}
		for _, ci := range core.CallSites(f) {
			if _, isGo := ci.(*ssa.Go); isGo {
				continue
			}
			id := ""
			if op := classifyLock(ci.Common()); op != nil && op.acquire {
				id = op.id
			} else if isPubsubAcquire(p, ci.Common()) {
				id = psLock
			}
			if id != "" {
				lg.acquire[f][id] = nil
				if lg.final[f][id] == nil {
					lg.final[f][id] = map[*ssa.Function]*ssa.Function{}
				}
				lg.final[f][id][f] = nil
			}
		}
	}
	// transitive closure
	changed := true
	for changed {
		changed = false
		for _, f := range fns {
			for _, e := range syncOut[f] {
				for l := range lg.acquire[e.Callee] {
					if _, ok := lg.acquire[f][l]; !ok {
						lg.acquire[f][l] = e.Callee
						changed = true
					}
				}
				for l, fins := range lg.final[e.Callee] {
					if lg.final[f][l] == nil {
						lg.final[f][l] = map[*ssa.Function]*ssa.Function{}
					}
					for fin := range fins {
						if _, ok := lg.final[f][l][fin]; !ok {
							lg.final[f][l][fin] = e.Callee
							changed = true
						}
					}
				}
			}
		}
	}
	chain := func(f *ssa.Function, l string) string {
		var parts []string
		cur := f
		for i := 0; i < 25 && cur != nil; i++ {
			parts = append(parts, core.ShortFn(cur))
			nx, ok := lg.acquire[cur][l]
			if !ok || nx == nil {
				break
			}
			cur = nx
		}
		return strings.Join(parts, " → ")
	}
	add := func(a, b, site, wit string) {
		e := lockEdge{a, b}
		if old, ok := lg.edges[e]; !ok || len(wit) < len(old) {
			lg.edges[e] = wit
			lg.sites[e] = site
		}
	}
	cbSeen := map[string]bool{}
	for _, f := range fns {
		held := lockRegions(p, f)
		siteEdges := map[ssa.Instruction][]core.Edge{}
		for _, e := range syncOut[f] {
			if e.Site != nil {
				siteEdges[e.Site] = append(siteEdges[e.Site], e)
			}
		}
		for _, ci := range core.CallSites(f) {
			ins := ci.(ssa.Instruction)
			if _, isGo := ci.(*ssa.Go); isGo {
				continue
			}
			H := held[ins]
			if dispatchers[f] {
				// Publish calls the dispatcher with the pubsub lock held
				H2 := lockSet{}
				for k, v := range H {
					H2[k] = v
				}
				H2[psLock] = true
				H2[psLock+"/R"] = true
				H = H2
			}
			if _, isDefer := ci.(*ssa.Defer); isDefer {
				// runs at function exit: locks released by earlier-registered defers
				// are still held, approximated by the set held at registration
			}
			if len(H) == 0 {
				continue
			}
			op := classifyLock(ci.Common())
			if op == nil && isPubsubAcquire(p, ci.Common()) {
				op = &lockOp{id: psLock, acquire: true}
			}
			if op != nil {
				if op.acquire {
					for _, h := range H.ids() {
						// RLock while holding RLock of the same lock is also a hazard (writer in between), keep it
						add(h, op.id, p.InstrPos(ins), core.ShortFn(f)+" (direct)")
						if h == op.id {
							k := h + "|" + core.ShortFn(f) + "→" + core.ShortFn(f)
							lg.selfs[k] = core.ShortFn(f) + " (direct)"
							lg.selfSite[k] = p.InstrPos(ins)
						}
					}
				}
				continue
			}
			// callbacks under lock inventory
			c := ci.Common()
			name := p.CalleeName(c)
			if c.IsInvoke() && strings.HasPrefix(name, "(datatransfer.") || (!c.IsInvoke() && c.StaticCallee() == nil) {
				for _, h := range H.ids() {
					k := h + " | " + core.ShortFn(f) + " → " + name
					if !cbSeen[k] {
						cbSeen[k] = true
						lg.callbacksUnderLock = append(lg.callbacksUnderLock, k)
					}
				}
			}
			for _, e := range siteEdges[ins] {
				// locks e.Callee may acquire when entered from this call site: its own
				// acquisitions and call sites that the facts of this call site rule out
				// (a request kind the caller has excluded) do not count
				reach := lg.reachFrom(p, f, ci, e, syncOut)
				for l, fins := range reach {
					for _, h := range H.ids() {
						var first *ssa.Function
						for fin, via := range fins {
							if first == nil || core.ShortFn(via) < core.ShortFn(first) {
								first = via
							}
							_ = fin
						}
						wit := core.ShortFn(f) + " → " + core.ShortFn(e.Callee)
						if first != nil && first != e.Callee {
							wit += " → " + chain(first, l)
						}
						add(h, l, p.InstrPos(ins), wit)
						if h == l {
							for fin, via := range fins {
								// chain through the hops towards this acquirer
								parts := []string{core.ShortFn(e.Callee)}
								cur := via
								for i := 0; i < 25 && cur != nil && cur != e.Callee; i++ {
									parts = append(parts, core.ShortFn(cur))
									if cur == fin {
										break
									}
									cur = lg.final[cur][l][fin]
								}
								k := l + "|" + core.ShortFn(f) + "→" + core.ShortFn(fin)
								w := core.ShortFn(f) + " → " + strings.Join(parts, " → ")
								if old, ok := lg.selfs[k]; !ok || len(w) < len(old) {
									lg.selfs[k] = w
									lg.selfSite[k] = p.InstrPos(ins)
								}
							}
						}
					}
				}
			}
		}
	}
	sort.Strings(lg.callbacksUnderLock)
	return lg
}

func (lg *lockGraph) sortedEdges() []lockEdge {
	var ks []lockEdge
	for e := range lg.edges {
		ks = append(ks, e)
	}
	sort.Slice(ks, func(i, j int) bool {
		if ks[i].a != ks[j].a {
			return ks[i].a < ks[j].a
		}
		return ks[i].b < ks[j].b
	})
	return ks
}

// cycles returns the elementary cycles of length >= 2 as sorted lock lists.
func (lg *lockGraph) cycles() [][]string {
	adj := map[string][]string{}
	nodes := map[string]bool{}
	for e := range lg.edges {
		if e.a != e.b {
			adj[e.a] = append(adj[e.a], e.b)
		}
		nodes[e.a], nodes[e.b] = true, true
	}
	var out [][]string
	seen := map[string]bool{}
	var names []string
	for n := range nodes {
		names = append(names, n)
	}
	sort.Strings(names)
	for _, start := range names {
		var dfs func(cur string, path []string, on map[string]bool)
		dfs = func(cur string, path []string, on map[string]bool) {
			for _, nx := range adj[cur] {
				if nx == start && len(path) >= 2 {
					cyc := append([]string{}, path...)
					// canonical: rotate so the smallest is first
					min := 0
					for i := range cyc {
						if cyc[i] < cyc[min] {
							min = i
						}
					}
					c := append(append([]string{}, cyc[min:]...), cyc[:min]...)
					k := strings.Join(c, "→")
					if !seen[k] {
						seen[k] = true
						out = append(out, c)
					}
					continue
				}
				if on[nx] || nx < start || len(path) > 6 {
					continue
				}
				on[nx] = true
				dfs(nx, append(path, nx), on)
				delete(on, nx)
			}
		}
		dfs(start, []string{start}, map[string]bool{start: true})
	}
	return out
}

func lockOrderRules(r *R, rule string) *lockGraph {
	lg := buildLockGraph(r)
	r.c.Stats["lock_order_edges"] = len(lg.edges)
	r.c.Stats["lock_order_functions"] = lg.nFuncs
	var es []string
	for _, e := range lg.sortedEdges() {
		es = append(es, e.a+" ⇒ "+e.b+"   ["+lg.edges[e]+"]")
	}
	r.c.Stats["lock_order_edge_list"] = es
	for _, e := range lg.sortedEdges() {
		short := func(s string) string { return strings.TrimPrefix(s, "transport/") }
		if e.a == e.b {
			continue // reported per (holder, acquirer) below
		} else {
			r.c.OK(rule, "edge|"+short(e.a)+"→"+short(e.b), lg.sites[e], lg.edges[e])
		}
	}
	var sk []string
	for k := range lg.selfs {
		sk = append(sk, k)
	}
	sort.Strings(sk)
	for _, k := range sk {
		lock := k[:strings.Index(k, "|")]
		r.c.Bad(rule, "self|"+strings.ReplaceAll(strings.ReplaceAll(k, "transport/", ""), "(*graphsync.", "(*"), lg.selfSite[k], fmt.Sprintf("lock %s is acquired again while it is already held (sync.Mutex/RWMutex is not re-entrant): %s — the goroutine deadlocks on itself", lock, lg.selfs[k]))
	}
	for _, cyc := range lg.cycles() {
		var wit []string
		for i := range cyc {
			e := lockEdge{cyc[i], cyc[(i+1)%len(cyc)]}
			wit = append(wit, e.a+" ⇒ "+e.b+" via "+lg.edges[e])
		}
		var sc []string
		for _, c := range cyc {
			sc = append(sc, strings.TrimPrefix(c, "transport/"))
		}
		r.c.Bad(rule, "cycle|"+strings.Join(sc, "<->"), lg.sites[lockEdge{cyc[0], cyc[1]}], "lock-order cycle (two goroutines taking these locks in opposite orders deadlock): "+strings.Join(wit, " ; "))
	}
	r.c.Floor(rule, len(lg.edges), 5, "lock-order edges")
	return lg
}

// reachFrom: lock → final acquirer → first hop, for the locks callee e.Callee
// may acquire when entered from call site S of f. A call site T inside
// e.Callee is left out when every path of f reaching S has established, about
// a message passed as an argument, the opposite of an accessor fact that
// dominates T (e.g. the caller only lets new and restart requests through and
// T is under "not new, not restart, cancel"). Depth one: deeper hops are taken
// from the context-free closure.
func (lg *lockGraph) reachFrom(p *core.Prog, f *ssa.Function, S ssa.CallInstruction, e core.Edge, syncOut map[*ssa.Function][]core.Edge) map[string]map[*ssa.Function]*ssa.Function {
	out := map[string]map[*ssa.Function]*ssa.Function{}
	put := func(l string, fin, via *ssa.Function) {
		if out[l] == nil {
			out[l] = map[*ssa.Function]*ssa.Function{}
		}
		if _, ok := out[l][fin]; !ok {
			out[l][fin] = via
		}
	}
	c1 := e.Callee
	ctx := newCallContext(p, f, S, c1, e.Kind)
	for _, ci := range core.CallSites(c1) {
		if _, isGo := ci.(*ssa.Go); isGo {
			continue
		}
		id := ""
		if op := classifyLock(ci.Common()); op != nil && op.acquire {
			id = op.id
		} else if isPubsubAcquire(p, ci.Common()) {
			id = psLock
		}
		if id != "" && ctx.feasible(ci.(ssa.Instruction)) {
			put(id, c1, c1)
		}
	}
	for _, e2 := range syncOut[c1] {
		if e2.Site != nil && !ctx.feasible(e2.Site) {
			lg.pruned = append(lg.pruned, core.ShortFn(f)+" → "+core.ShortFn(c1)+" ↛ "+core.ShortFn(e2.Callee)+" ("+ctx.why+")")
			continue
		}
		for l, fins := range lg.final[e2.Callee] {
			for fin := range fins {
				put(l, fin, e2.Callee)
			}
		}
	}
	return out
}

// callContext decides whether an instruction of callee c1 can execute when c1
// is entered from call site S of f.
type callContext struct {
	p     *core.Prog
	c1    *ssa.Function
	paths []*core.Path // paths of f through S
	args  map[*ssa.Parameter]ssa.Value
	S     ssa.CallInstruction
	ok    bool
	why   string
}

var lockPathsCache = map[*ssa.Function][]*core.Path{}

func isMessageType(t types.Type) bool {
	s := core.TypeShort(t)
	return s == "datatransfer.Request" || s == "datatransfer.Response" || s == "datatransfer.Message"
}

func newCallContext(p *core.Prog, f *ssa.Function, S ssa.CallInstruction, c1 *ssa.Function, kind string) *callContext {
	cc := &callContext{p: p, c1: c1, S: S, args: map[*ssa.Parameter]ssa.Value{}}
	if kind != "call" && kind != "defer" && kind != "" {
		return cc
	}
	c := S.Common()
	var actual []ssa.Value
	if c.IsInvoke() {
		actual = append([]ssa.Value{c.Value}, c.Args...)
	} else {
		actual = c.Args
	}
	if len(actual) != len(c1.Params) {
		return cc
	}
	any := false
	for i, q := range c1.Params {
		if isMessageType(q.Type()) {
			cc.args[q] = actual[i]
			any = true
		}
	}
	if !any {
		return cc
	}
	ps, done := lockPathsCache[f]
	if !done {
		var complete bool
		ps, complete = p.Paths(f)
		if !complete {
			ps = nil
		}
		lockPathsCache[f] = ps
	}
	for _, pt := range ps {
		for _, ev := range pt.Evs {
			if ev.Instr == S.(ssa.Instruction) {
				cc.paths = append(cc.paths, pt)
				break
			}
		}
	}
	cc.ok = len(cc.paths) > 0
	return cc
}

func (cc *callContext) feasible(T ssa.Instruction) bool {
	if !cc.ok {
		return true
	}
	facts := cc.p.Facts(cc.c1)[T.Block()]
	if len(facts) == 0 {
		return true
	}
	for _, pt := range cc.paths {
		d := cc.p.D()
		d.Subst = map[*ssa.Parameter]string{}
		var prefixes []string
		for q, v := range cc.args {
			s := pt.Desc(v)
			d.Subst[q] = s
			prefixes = append(prefixes, s+".")
		}
		before := pt.AtomsBefore(cc.S.(ssa.Instruction))
		contradicted := false
		for _, fc := range facts {
			a := d.NormAtom(fc.Cond, fc.Pol)
			// only no-argument accessor calls on a message that was passed in
			isAcc := false
			for _, pre := range prefixes {
				if strings.HasPrefix(a.S, pre) && strings.HasSuffix(a.S, "()") && !strings.ContainsAny(a.S[len(pre):len(a.S)-2], ".(") {
					isAcc = true
				}
			}
			if !isAcc {
				continue
			}
			for _, b := range before {
				if b.S == a.S && b.Pol != a.Pol {
					contradicted = true
					cc.why = "caller established " + b.String()
				}
			}
		}
		if !contradicted {
			return true
		}
	}
	return false
}
