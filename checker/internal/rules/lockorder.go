package rules

import (
	"fmt"
	"go/types"
	"sort"
	"strings"

	"dtcheck/internal/core"

	"golang.org/x/tools/go/ssa"
)

// Lock-order analysis (DESIGN E7d): edge L1→L2 whenever L2 is acquired —
// directly or through the completed call graph, not across go statements —
// while L1 is in the must-hold set. Self-edges (re-entrancy of a
// non-reentrant mutex) and cycles are deadlocks.

type lockEdge struct{ a, b string }

type lockGraph struct {
	edges   map[lockEdge]string // witness
	sites   map[lockEdge]string
	acquire map[*ssa.Function]map[string]*ssa.Function // fn → lock → next callee on a path that acquires it (nil = direct)
	// final[fn][lock][acquirer] = next hop: every function that directly
	// acquires lock and is synchronously reachable from fn
	final    map[*ssa.Function]map[string]map[*ssa.Function]*ssa.Function
	selfs    map[string]string // "lock|holder→acquirer" → witness
	selfSite map[string]string
	nFuncs   int
	// pubsub model: dispatcher functions and module subscribers found
	nDispatchers, nModSubs int
	// callbacks made while a lock is held: "lock | caller → callee"
	callbacksUnderLock []string
	// call sites left out because the caller's facts about a message rule them out
	pruned []string
}

// userStubs: what client-supplied callbacks may call back into (DESIGN §3).
// A subscriber may call these Manager methods from inside the callback.
var subscriberMayCall = [][3]string{
	{"impl", "manager", "ChannelState"}, {"impl", "manager", "SendVoucher"}, {"impl", "manager", "SendVoucherResult"}, {"impl", "manager", "UpdateValidationStatus"},
	{"impl", "manager", "PauseDataTransferChannel"}, {"impl", "manager", "ResumeDataTransferChannel"}, {"impl", "manager", "CloseDataTransferChannel"},
	{"impl", "manager", "TransferChannelStatus"}, {"impl", "manager", "InProgressChannels"},
}

// psLock models the one lock of the event pubsub (a dependency, so its body is
// not analysed): Publish holds it (shared) while the dispatcher calls each
// subscriber; Subscribe and the returned Unsubscribe function take it
// exclusively. Confirmed by reading go-pubsub pubsub.go (trusted version).
const psLock = "go-pubsub.PubSub.subscribersLk"

// isPubsubAcquire: a call that takes the pubsub lock exclusively.
func isPubsubAcquire(p *core.Prog, c *ssa.CallCommon) bool {
	if p.CalleeName(c) == "(*github.com/hannahhoward/go-pubsub.PubSub).Subscribe" {
		return true
	}
	if !c.IsInvoke() && c.StaticCallee() == nil {
		if _, isBuiltin := c.Value.(*ssa.Builtin); !isBuiltin {
			t := core.TypeShort(c.Value.Type())
			return t == "datatransfer.Unsubscribe" || t == "github.com/hannahhoward/go-pubsub.Unsubscribe"
		}
	}
	return false
}

// pubsubDispatchers: the functions handed to pubsub.New; Publish runs them
// with the pubsub lock held.
func pubsubDispatchers(p *core.Prog) map[*ssa.Function]bool {
	out := map[*ssa.Function]bool{}
	for _, f := range p.Prod {
		for _, ci := range core.CallSites(f) {
			if p.CalleeName(ci.Common()) != "github.com/hannahhoward/go-pubsub.New" || len(ci.Common().Args) == 0 {
				continue
			}
			v := ci.Common().Args[0]
			for i := 0; i < 4; i++ {
				switch x := v.(type) {
				case *ssa.ChangeType:
					v = x.X
				case *ssa.MakeClosure:
					v = x.Fn
				}
			}
			if fn, ok := v.(*ssa.Function); ok {
				out[fn] = true
			}
		}
	}
	return out
}

// moduleSubscribers: functions of the module registered as event subscribers
// (passed to a SubscribeToEvents call); the dispatcher calls them like any
// client subscriber.
func moduleSubscribers(p *core.Prog) []*ssa.Function {
	seen := map[*ssa.Function]bool{}
	var out []*ssa.Function
	for _, f := range p.Prod {
		for _, ci := range core.CallSites(f) {
			c := ci.Common()
			if !strings.HasSuffix(p.CalleeName(c), ".SubscribeToEvents") {
				continue
			}
			for _, a := range c.Args {
				v := a
				for i := 0; i < 4; i++ {
					switch x := v.(type) {
					case *ssa.ChangeType:
						v = x.X
					case *ssa.MakeInterface:
						v = x.X
					case *ssa.MakeClosure:
						v = x.Fn
					}
				}
				if fn, ok := v.(*ssa.Function); ok {
					fn = core.Unwrap(fn)
					if p.InProd(fn) && len(fn.Blocks) > 0 && !seen[fn] {
						seen[fn] = true
						out = append(out, fn)
					}
				}
			}
		}
	}
	sort.Slice(out, func(i, j int) bool { return out[i].String() < out[j].String() })
	return out
}

func buildLockGraph(r *R) *lockGraph {
	p := r.p
	g := p.CG()
	lg := &lockGraph{edges: map[lockEdge]string{}, sites: map[lockEdge]string{}, acquire: map[*ssa.Function]map[string]*ssa.Function{},
		final: map[*ssa.Function]map[string]map[*ssa.Function]*ssa.Function{}, selfs: map[string]string{}, selfSite: map[string]string{}}
	fns := p.Prod
	lg.nFuncs = len(fns)
	// synchronous callees per function (call, defer, joined errgroup; not go)
	syncOut := map[*ssa.Function][]core.Edge{}
	for _, f := range fns {
		for _, e := range g.Out[f] {
			if e.Async {
				continue
			}
			syncOut[f] = append(syncOut[f], e)
		}
	}
	// user callback stubs: a call of a datatransfer.Subscriber value may re-enter the manager API
	var stubTargets []*ssa.Function
	for _, t := range subscriberMayCall {
		if f := p.Func(t[0], t[1], t[2]); f != nil {
			stubTargets = append(stubTargets, f)
		}
	}
	dispatchers := pubsubDispatchers(p)
	modSubs := moduleSubscribers(p)
	lg.nDispatchers, lg.nModSubs = len(dispatchers), len(modSubs)
	isSubscriberCall := func(ci ssa.CallInstruction) bool {
		c := ci.Common()
		if c.IsInvoke() || c.StaticCallee() != nil {
			return false
		}
		return core.TypeShort(c.Value.Type()) == "datatransfer.Subscriber"
	}
	for _, f := range fns {
		for _, ci := range core.CallSites(f) {
			if _, isGo := ci.(*ssa.Go); isGo {
				continue
			}
			if isSubscriberCall(ci) {
				for _, t := range stubTargets {
					syncOut[f] = append(syncOut[f], core.Edge{Site: ci.(ssa.Instruction), Callee: t, Kind: "user-callback"})
				}
				if dispatchers[f] {
					for _, t := range modSubs {
						syncOut[f] = append(syncOut[f], core.Edge{Site: ci.(ssa.Instruction), Callee: t, Kind: "module-subscriber"})
					}
				}
			}
		}
	}
	// direct acquisitions
	for _, f := range fns {
		lg.acquire[f] = map[string]*ssa.Function{}
		lg.final[f] = map[string]map[*ssa.Function]*ssa.Function{}
		for _, ci := range core.CallSites(f) {
			if _, isGo := ci.(*ssa.Go); isGo {
				continue
			}
			id := ""
			if op := classifyLock(ci.Common()); op != nil && op.acquire {
				id = op.id
			} else if isPubsubAcquire(p, ci.Common()) {
				id = psLock
			}
			if id != "" {
				lg.acquire[f][id] = nil
				if lg.final[f][id] == nil {
					lg.final[f][id] = map[*ssa.Function]*ssa.Function{}
				}
				lg.final[f][id][f] = nil
			}
		}
	}
	// transitive closure
	changed := true
	for changed {
		changed = false
		for _, f := range fns {
			for _, e := range syncOut[f] {
				for l := range lg.acquire[e.Callee] {
					if _, ok := lg.acquire[f][l]; !ok {
						lg.acquire[f][l] = e.Callee
						changed = true
					}
				}
				for l, fins := range lg.final[e.Callee] {
					if lg.final[f][l] == nil {
						lg.final[f][l] = map[*ssa.Function]*ssa.Function{}
					}
					for fin := range fins {
						if _, ok := lg.final[f][l][fin]; !ok {
							lg.final[f][l][fin] = e.Callee
							changed = true
						}
					}
				}
			}
		}
	}
	chain := func(f *ssa.Function, l string) string {
		var parts []string
		cur := f
		for i := 0; i < 25 && cur != nil; i++ {
			parts = append(parts, core.ShortFn(cur))
			nx, ok := lg.acquire[cur][l]
			if !ok || nx == nil {
				break
			}
			cur = nx
		}
		return strings.Join(parts, " → ")
	}
	add := func(a, b, site, wit string) {
		e := lockEdge{a, b}
		if old, ok := lg.edges[e]; !ok || len(wit) < len(old) {
			lg.edges[e] = wit
			lg.sites[e] = site
		}
	}
	cbSeen := map[string]bool{}
	for _, f := range fns {
		held := lockRegions(p, f)
		siteEdges := map[ssa.Instruction][]core.Edge{}
		for _, e := range syncOut[f] {
			if e.Site != nil {
				siteEdges[e.Site] = append(siteEdges[e.Site], e)
			}
		}
		for _, ci := range core.CallSites(f) {
			ins := ci.(ssa.Instruction)
			if _, isGo := ci.(*ssa.Go); isGo {
				continue
			}
			H := held[ins]
			if dispatchers[f] {
				// Publish calls the dispatcher with the pubsub lock held
				H2 := lockSet{}
				for k, v := range H {
					H2[k] = v
				}
				H2[psLock] = true
				H2[psLock+"/R"] = true
				H = H2
			}
			if _, isDefer := ci.(*ssa.Defer); isDefer {
				// runs at function exit: locks released by earlier-registered defers
				// are still held, approximated by the set held at registration
			}
			if len(H) == 0 {
				continue
			}
			op := classifyLock(ci.Common())
			if op == nil && isPubsubAcquire(p, ci.Common()) {
				op = &lockOp{id: psLock, acquire: true}
			}
			if op != nil {
				if op.acquire {
					for _, h := range H.ids() {
						// RLock while holding RLock of the same lock is also a hazard (writer in between), keep it
						add(h, op.id, p.InstrPos(ins), core.ShortFn(f)+" (direct)")
						if h == op.id {
							k := h + "|" + core.ShortFn(f) + "→" + core.ShortFn(f)
							lg.selfs[k] = core.ShortFn(f) + " (direct)"
							lg.selfSite[k] = p.InstrPos(ins)
						}
					}
				}
				continue
			}
			// callbacks under lock inventory
			c := ci.Common()
			name := p.CalleeName(c)
			if c.IsInvoke() && strings.HasPrefix(name, "(datatransfer.") || (!c.IsInvoke() && c.StaticCallee() == nil) {
				for _, h := range H.ids() {
					k := h + " | " + core.ShortFn(f) + " → " + name
					if !cbSeen[k] {
						cbSeen[k] = true
						lg.callbacksUnderLock = append(lg.callbacksUnderLock, k)
					}
				}
			}
			for _, e := range siteEdges[ins] {
				// locks e.Callee may acquire when entered from this call site: its own
				// acquisitions and call sites that the facts of this call site rule out
				// (a request kind the caller has excluded) do not count
				reach := lg.reachFrom(p, f, ci, e, syncOut)
				for l, fins := range reach {
					for _, h := range H.ids() {
						var first *ssa.Function
						for fin, via := range fins {
							if first == nil || core.ShortFn(via) < core.ShortFn(first) {
								first = via
							}
							_ = fin
						}
						wit := core.ShortFn(f) + " → " + core.ShortFn(e.Callee)
						if first != nil && first != e.Callee {
							wit += " → " + chain(first, l)
						}
						add(h, l, p.InstrPos(ins), wit)
						if h == l {
							for fin, via := range fins {
								// chain through the hops towards this acquirer
								parts := []string{core.ShortFn(e.Callee)}
								cur := via
								for i := 0; i < 25 && cur != nil && cur != e.Callee; i++ {
									parts = append(parts, core.ShortFn(cur))
									if cur == fin {
										break
									}
									cur = lg.final[cur][l][fin]
								}
								k := l + "|" + core.ShortFn(f) + "→" + core.ShortFn(fin)
								w := core.ShortFn(f) + " → " + strings.Join(parts, " → ")
								if old, ok := lg.selfs[k]; !ok || len(w) < len(old) {
									lg.selfs[k] = w
									lg.selfSite[k] = p.InstrPos(ins)
								}
							}
						}
					}
				}
			}
		}
	}
	sort.Strings(lg.callbacksUnderLock)
	return lg
}

func (lg *lockGraph) sortedEdges() []lockEdge {
	var ks []lockEdge
	for e := range lg.edges {
		ks = append(ks, e)
	}
	sort.Slice(ks, func(i, j int) bool {
		if ks[i].a != ks[j].a {
			return ks[i].a < ks[j].a
		}
		return ks[i].b < ks[j].b
	})
	return ks
}

// cycles returns the elementary cycles of length >= 2 as sorted lock lists.
func (lg *lockGraph) cycles() [][]string {
	adj := map[string][]string{}
	nodes := map[string]bool{}
	for e := range lg.edges {
		if e.a != e.b {
			adj[e.a] = append(adj[e.a], e.b)
		}
		nodes[e.a], nodes[e.b] = true, true
	}
	var out [][]string
	seen := map[string]bool{}
	var names []string
	for n := range nodes {
		names = append(names, n)
	}
	sort.Strings(names)
	for _, start := range names {
		var dfs func(cur string, path []string, on map[string]bool)
		dfs = func(cur string, path []string, on map[string]bool) {
			for _, nx := range adj[cur] {
				if nx == start && len(path) >= 2 {
					cyc := append([]string{}, path...)
					// canonical: rotate so the smallest is first
					min := 0
					for i := range cyc {
						if cyc[i] < cyc[min] {
							min = i
						}
					}
					c := append(append([]string{}, cyc[min:]...), cyc[:min]...)
					k := strings.Join(c, "→")
					if !seen[k] {
						seen[k] = true
						out = append(out, c)
					}
					continue
				}
				if on[nx] || nx < start || len(path) > 6 {
					continue
				}
				on[nx] = true
				dfs(nx, append(path, nx), on)
				delete(on, nx)
			}
		}
		dfs(start, []string{start}, map[string]bool{start: true})
	}
	return out
}

func lockOrderRules(r *R, rule string) *lockGraph {
	lg := buildLockGraph(r)
	r.c.Stats["lock_order_edges"] = len(lg.edges)
	r.c.Stats["lock_order_functions"] = lg.nFuncs
	var es []string
	for _, e := range lg.sortedEdges() {
		es = append(es, e.a+" ⇒ "+e.b+"   ["+lg.edges[e]+"]")
	}
	r.c.Stats["lock_order_edge_list"] = es
	for _, e := range lg.sortedEdges() {
		short := func(s string) string { return strings.TrimPrefix(s, "transport/") }
		if e.a == e.b {
			continue // reported per (holder, acquirer) below
		} else {
			r.c.OK(rule, "edge|"+short(e.a)+"→"+short(e.b), lg.sites[e], lg.edges[e])
		}
	}
	var sk []string
	for k := range lg.selfs {
		sk = append(sk, k)
	}
	sort.Strings(sk)
	for _, k := range sk {
		lock := k[:strings.Index(k, "|")]
		r.c.Bad(rule, "self|"+strings.ReplaceAll(strings.ReplaceAll(k, "transport/", ""), "(*graphsync.", "(*"), lg.selfSite[k], fmt.Sprintf("lock %s is acquired again while it is already held (sync.Mutex/RWMutex is not re-entrant): %s — the goroutine deadlocks on itself", lock, lg.selfs[k]))
	}
	for _, cyc := range lg.cycles() {
		var wit []string
		for i := range cyc {
			e := lockEdge{cyc[i], cyc[(i+1)%len(cyc)]}
			wit = append(wit, e.a+" ⇒ "+e.b+" via "+lg.edges[e])
		}
		var sc []string
		for _, c := range cyc {
			sc = append(sc, strings.TrimPrefix(c, "transport/"))
		}
		r.c.Bad(rule, "cycle|"+strings.Join(sc, "<->"), lg.sites[lockEdge{cyc[0], cyc[1]}], "lock-order cycle (two goroutines taking these locks in opposite orders deadlock): "+strings.Join(wit, " ; "))
	}
	r.c.Floor(rule, len(lg.edges), 5, "lock-order edges")
	return lg
}

// reachFrom: lock → final acquirer → first hop, for the locks callee e.Callee
// may acquire when entered from call site S of f. A call site T inside the
// callee (and, following message-typed arguments, inside its callees, up to
// three levels) is left out when every path of f reaching S has established,
// about a message passed along as an argument, the opposite of an accessor
// fact that dominates T (e.g. the caller only lets non-cancel requests through
// and T is under "cancel"). Elsewhere the context-free closure is used.
func (lg *lockGraph) reachFrom(p *core.Prog, f *ssa.Function, S ssa.CallInstruction, e core.Edge, syncOut map[*ssa.Function][]core.Edge) map[string]map[*ssa.Function]*ssa.Function {
	out := map[string]map[*ssa.Function]*ssa.Function{}
	put := func(l string, fin, via *ssa.Function) {
		if out[l] == nil {
			out[l] = map[*ssa.Function]*ssa.Function{}
		}
		if _, ok := out[l][fin]; !ok {
			out[l][fin] = via
		}
	}
	alts := rootAlts(p, f, S, e)
	var rec func(fn *ssa.Function, alts []ctxAlt, depth int, via *ssa.Function, stack map[*ssa.Function]bool)
	rec = func(fn *ssa.Function, alts []ctxAlt, depth int, via *ssa.Function, stack map[*ssa.Function]bool) {
		first := func(next *ssa.Function) *ssa.Function {
			if via != nil {
				return via
			}
			return next
		}
		for _, ci := range core.CallSites(fn) {
			if _, isGo := ci.(*ssa.Go); isGo {
				continue
			}
			id := ""
			if op := classifyLock(ci.Common()); op != nil && op.acquire {
				id = op.id
			} else if isPubsubAcquire(p, ci.Common()) {
				id = psLock
			}
			if id == "" {
				continue
			}
			if ok, _ := feasibleAlts(p, fn, ci.(ssa.Instruction), alts); len(alts) == 0 || len(ok) > 0 {
				put(id, fn, first(fn))
			}
		}
		for _, e2 := range syncOut[fn] {
			next := alts
			if e2.Site != nil && len(alts) > 0 {
				ok, why := feasibleAlts(p, fn, e2.Site, alts)
				if len(ok) == 0 {
					lg.pruned = append(lg.pruned, core.ShortFn(f)+" → … → "+core.ShortFn(fn)+" ↛ "+core.ShortFn(e2.Callee)+" ("+why+")")
					continue
				}
				next = ok
			}
			var deeper []ctxAlt
			if depth > 0 && e2.Site != nil && len(next) > 0 && !stack[e2.Callee] && (e2.Kind == "call" || e2.Kind == "defer" || e2.Kind == "") {
				if ci, isCall := e2.Site.(ssa.CallInstruction); isCall {
					deeper = passAlts(p, fn, ci, e2.Callee, next)
				}
			}
			if len(deeper) > 0 {
				stack[e2.Callee] = true
				rec(e2.Callee, deeper, depth-1, first(e2.Callee), stack)
				delete(stack, e2.Callee)
				continue
			}
			for l, fins := range lg.final[e2.Callee] {
				for fin := range fins {
					put(l, fin, first(e2.Callee))
				}
			}
		}
	}
	rec(e.Callee, alts, 3, nil, map[*ssa.Function]bool{e.Callee: true})
	return out
}

// ctxAlt is one way control reaches the function under analysis: what is known
// (atoms in the root function's terms) and how the function's message-typed
// parameters read in those terms.
type ctxAlt struct {
	known map[string]bool
	subst map[*ssa.Parameter]string
}

var lockPathsCache = map[*ssa.Function][]*core.Path{}

func isMessageType(t types.Type) bool {
	s := core.TypeShort(t)
	return s == "datatransfer.Request" || s == "datatransfer.Response" || s == "datatransfer.Message"
}

func actualArgs(c *ssa.CallCommon) []ssa.Value {
	if c.IsInvoke() {
		return append([]ssa.Value{c.Value}, c.Args...)
	}
	return c.Args
}

// rootAlts: one alternative per path of f through S, when the callee takes a
// message; nil (no context) otherwise.
func rootAlts(p *core.Prog, f *ssa.Function, S ssa.CallInstruction, e core.Edge) []ctxAlt {
	if e.Kind != "call" && e.Kind != "defer" && e.Kind != "" {
		return nil
	}
	c1 := e.Callee
	actual := actualArgs(S.Common())
	if len(actual) != len(c1.Params) {
		return nil
	}
	var msgParams []int
	for i, q := range c1.Params {
		if isMessageType(q.Type()) {
			msgParams = append(msgParams, i)
		}
	}
	if len(msgParams) == 0 {
		return nil
	}
	ps, done := lockPathsCache[f]
	if !done {
		var complete bool
		ps, complete = p.Paths(f)
		if !complete {
			ps = nil
		}
		lockPathsCache[f] = ps
	}
	var alts []ctxAlt
	for _, pt := range ps {
		through := false
		for _, ev := range pt.Evs {
			if ev.Instr == S.(ssa.Instruction) {
				through = true
				break
			}
		}
		if !through {
			continue
		}
		a := ctxAlt{known: map[string]bool{}, subst: map[*ssa.Parameter]string{}}
		for _, at := range pt.AtomsBefore(S.(ssa.Instruction)) {
			a.known[at.String()] = true
		}
		for _, i := range msgParams {
			a.subst[c1.Params[i]] = stripAssert(pt.Desc(actual[i]))
		}
		alts = append(alts, a)
	}
	return alts
}

// stripAssert: a message asserted to its request/response interface is the
// same object (x.(datatransfer.Request) and x answer accessors alike).
func stripAssert(s string) string {
	for _, suf := range []string{".(datatransfer.Request)", ".(datatransfer.Response)", ".(datatransfer.Message)", ".(datatransfer.Request)?#0", ".(datatransfer.Response)?#0"} {
		s = strings.TrimSuffix(s, suf)
	}
	return s
}

func accessorAtom(a core.Atom, prefixes []string) (core.Atom, bool) {
	for _, pre := range prefixes {
		for _, mid := range []string{"", ".(datatransfer.Request)", ".(datatransfer.Response)", ".(datatransfer.Request)?#0", ".(datatransfer.Response)?#0"} {
			full := pre + mid + "."
			if strings.HasPrefix(a.S, full) && strings.HasSuffix(a.S, "()") && !strings.ContainsAny(a.S[len(full):len(a.S)-2], ".(") {
				return core.Atom{S: pre + "." + a.S[len(full):], Pol: a.Pol}, true
			}
		}
	}
	return a, false
}

// siteAtoms: accessor facts on passed-in messages that dominate T in fn,
// rendered through the alternative's substitution (normalised: assertions
// stripped).
func siteAtoms(p *core.Prog, fn *ssa.Function, T ssa.Instruction, alt ctxAlt) []core.Atom {
	facts := p.Facts(fn)[T.Block()]
	if len(facts) == 0 {
		return nil
	}
	d := p.D()
	d.Subst = alt.subst
	var prefixes []string
	for _, s := range alt.subst {
		prefixes = append(prefixes, s)
	}
	var out []core.Atom
	for _, fc := range facts {
		if a, ok := accessorAtom(d.NormAtom(fc.Cond, fc.Pol), prefixes); ok {
			out = append(out, a)
		}
	}
	return out
}

// feasibleAlts: the alternatives under which T can execute.
func feasibleAlts(p *core.Prog, fn *ssa.Function, T ssa.Instruction, alts []ctxAlt) ([]ctxAlt, string) {
	var ok []ctxAlt
	why := ""
	for _, alt := range alts {
		var prefixes []string
		for _, s := range alt.subst {
			prefixes = append(prefixes, s)
		}
		contradicted := false
		for _, a := range siteAtoms(p, fn, T, alt) {
			neg := core.Atom{S: a.S, Pol: !a.Pol}
			for k := range alt.known {
				if kb, isAcc := accessorAtom(core.ParseAtom(k), prefixes); isAcc && kb == neg {
					contradicted = true
					why = "caller established " + k
				}
			}
		}
		if !contradicted {
			ok = append(ok, alt)
		}
	}
	return ok, why
}

// passAlts: the alternatives as seen inside callee c2 entered from site T of
// fn: facts dominating T join what is known, and c2's message parameters are
// bound to the arguments; nil when c2 takes no message that fn knows about.
func passAlts(p *core.Prog, fn *ssa.Function, T ssa.CallInstruction, c2 *ssa.Function, alts []ctxAlt) []ctxAlt {
	actual := actualArgs(T.Common())
	if len(actual) != len(c2.Params) || len(c2.Blocks) == 0 {
		return nil
	}
	var out []ctxAlt
	for _, alt := range alts {
		d := p.D()
		d.Subst = alt.subst
		na := ctxAlt{known: map[string]bool{}, subst: map[*ssa.Parameter]string{}}
		for k := range alt.known {
			na.known[k] = true
		}
		for _, a := range siteAtoms(p, fn, T.(ssa.Instruction), alt) {
			na.known[a.String()] = true
		}
		any := false
		for i, q := range c2.Params {
			if !isMessageType(q.Type()) {
				continue
			}
			s := stripAssert(d.Of(actual[i]))
			for _, known := range alt.subst {
				if s == known {
					na.subst[q] = s
					any = true
				}
			}
		}
		if any {
			out = append(out, na)
		}
	}
	return out
}
