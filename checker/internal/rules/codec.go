package rules

import (
	"fmt"
	"go/ast"
	"go/constant"
	"go/token"
	"go/types"
	"strconv"
	"strings"
)

// Codec table agreement for cbor-gen code (DESIGN E8): the struct's field
// set, the keys/fields written by MarshalCBOR and the case labels / fields
// assigned by UnmarshalCBOR agree, and the header encodes exactly |fields|
// entries. Works on the type-checked syntax tree.

type codecInfo struct {
	kind     string // "map" | "tuple"
	count    int
	keys     []string            // map: keys in write order; tuple: fields in write order
	refs     map[string][]string // map: key → fields of t referenced while writing it
	readKeys []string            // map: case labels; tuple: fields in read order
	readRefs map[string][]string // map: case label → fields of t referenced
	readCnt  int                 // tuple: the n of `extra != n`; map: -1
	problems []string
}

func findMethod(pk *ast.Package, files []*ast.File, typeName, method string) *ast.FuncDecl {
	for _, f := range files {
		for _, d := range f.Decls {
			fd, ok := d.(*ast.FuncDecl)
			if !ok || fd.Recv == nil || fd.Name.Name != method || len(fd.Recv.List) != 1 {
				continue
			}
			t := fd.Recv.List[0].Type
			if st, ok := t.(*ast.StarExpr); ok {
				t = st.X
			}
			if id, ok := t.(*ast.Ident); ok && id.Name == typeName {
				return fd
			}
		}
	}
	return nil
}

func headerBytes(info *types.Info, files []*ast.File, e ast.Expr) []int64 {
	// []byte{...} literal, or an identifier initialised with one
	if id, ok := e.(*ast.Ident); ok {
		if obj, ok := info.Uses[id].(*types.Var); ok {
			for _, f := range files {
				for _, d := range f.Decls {
					gd, ok := d.(*ast.GenDecl)
					if !ok {
						continue
					}
					for _, sp := range gd.Specs {
						vs, ok := sp.(*ast.ValueSpec)
						if !ok {
							continue
						}
						for i, n := range vs.Names {
							if info.Defs[n] == obj && i < len(vs.Values) {
								return headerBytes(info, files, vs.Values[i])
							}
						}
					}
				}
			}
		}
		return nil
	}
	cl, ok := e.(*ast.CompositeLit)
	if !ok {
		return nil
	}
	var out []int64
	for _, el := range cl.Elts {
		tv, ok := info.Types[el]
		if !ok || tv.Value == nil {
			return nil
		}
		v, _ := constant.Int64Val(tv.Value)
		out = append(out, v)
	}
	return out
}

func decodeHeader(b []int64) (kind string, n int) {
	if len(b) == 0 {
		return "", -1
	}
	switch {
	case b[0] >= 0xa0 && b[0] <= 0xb7:
		return "map", int(b[0] - 0xa0)
	case b[0] == 0xb8 && len(b) > 1:
		return "map", int(b[1])
	case b[0] >= 0x80 && b[0] <= 0x97:
		return "tuple", int(b[0] - 0x80)
	case b[0] == 0x98 && len(b) > 1:
		return "tuple", int(b[1])
	}
	return "", -1
}

// fieldSel returns the field name when e is `t.F` with t the receiver.
func fieldSel(info *types.Info, recv types.Object, e ast.Expr) string {
	sel, ok := e.(*ast.SelectorExpr)
	if !ok {
		return ""
	}
	id, ok := sel.X.(*ast.Ident)
	if !ok || info.Uses[id] != recv {
		return ""
	}
	if s, ok := info.Selections[sel]; ok && s.Kind() == types.FieldVal {
		return sel.Sel.Name
	}
	return ""
}

func appendUniq(l []string, s string) []string {
	for _, x := range l {
		if x == s {
			return l
		}
	}
	return append(l, s)
}

func analyseCodec(r *R, rel, typeName string) (*codecInfo, []string) {
	pk := r.p.ByRel[rel]
	ci := &codecInfo{refs: map[string][]string{}, readRefs: map[string][]string{}, readCnt: -1}
	if pk == nil {
		return nil, nil
	}
	obj, _ := pk.Types.Scope().Lookup(typeName).(*types.TypeName)
	if obj == nil {
		return nil, nil
	}
	st, ok := obj.Type().Underlying().(*types.Struct)
	if !ok {
		return nil, nil
	}
	var fields []string
	for i := 0; i < st.NumFields(); i++ {
		fields = append(fields, st.Field(i).Name())
	}
	info := pk.TypesInfo
	m := findMethod(nil, pk.Syntax, typeName, "MarshalCBOR")
	u := findMethod(nil, pk.Syntax, typeName, "UnmarshalCBOR")
	if m == nil || u == nil {
		ci.problems = append(ci.problems, "MarshalCBOR/UnmarshalCBOR not found")
		return ci, fields
	}
	recvOf := func(fd *ast.FuncDecl) types.Object {
		if len(fd.Recv.List[0].Names) == 0 {
			return nil
		}
		return info.Defs[fd.Recv.List[0].Names[0]]
	}
	// ---- marshal
	mrecv := recvOf(m)
	cur := ""
	ast.Inspect(m.Body, func(n ast.Node) bool {
		switch x := n.(type) {
		case *ast.CallExpr:
			if sel, ok := x.Fun.(*ast.SelectorExpr); ok {
				switch sel.Sel.Name {
				case "Write":
					if ci.kind == "" && len(x.Args) == 1 {
						if hb := headerBytes(info, pk.Syntax, x.Args[0]); hb != nil {
							ci.kind, ci.count = decodeHeader(hb)
						}
					}
				case "WriteString":
					// cw.WriteString(string("Key"))
					if len(x.Args) == 1 {
						if conv, ok := x.Args[0].(*ast.CallExpr); ok && len(conv.Args) == 1 {
							if bl, ok := conv.Args[0].(*ast.BasicLit); ok && bl.Kind == token.STRING {
								k, _ := strconv.Unquote(bl.Value)
								cur = k
								ci.keys = append(ci.keys, k)
								return false
							}
						}
					}
				}
			}
		case *ast.SelectorExpr:
			if f := fieldSel(info, mrecv, x); f != "" {
				if ci.kind == "tuple" {
					ci.keys = appendUniq(ci.keys, f)
				} else if cur != "" {
					ci.refs[cur] = appendUniq(ci.refs[cur], f)
				} else {
					ci.problems = append(ci.problems, "field "+f+" written before any key")
				}
			}
		}
		return true
	})
	// ---- unmarshal
	urecv := recvOf(u)
	if ci.kind == "map" {
		var sw *ast.SwitchStmt
		ast.Inspect(u.Body, func(n ast.Node) bool {
			if s, ok := n.(*ast.SwitchStmt); ok && sw == nil && s.Tag != nil {
				if c, ok := s.Tag.(*ast.CallExpr); ok {
					if id, ok := c.Fun.(*ast.Ident); ok && id.Name == "string" {
						sw = s
						return false
					}
				}
			}
			return true
		})
		if sw == nil {
			ci.problems = append(ci.problems, "no switch over the key name in UnmarshalCBOR")
		} else {
			for _, cc := range sw.Body.List {
				clause := cc.(*ast.CaseClause)
				if clause.List == nil {
					continue // default
				}
				for _, le := range clause.List {
					bl, ok := le.(*ast.BasicLit)
					if !ok {
						ci.problems = append(ci.problems, "non-literal case label")
						continue
					}
					k, _ := strconv.Unquote(bl.Value)
					ci.readKeys = append(ci.readKeys, k)
					for _, stmt := range clause.Body {
						ast.Inspect(stmt, func(n ast.Node) bool {
							if se, ok := n.(*ast.SelectorExpr); ok {
								if f := fieldSel(info, urecv, se); f != "" {
									ci.readRefs[k] = appendUniq(ci.readRefs[k], f)
								}
							}
							return true
						})
					}
				}
			}
		}
	} else if ci.kind == "tuple" {
		ast.Inspect(u.Body, func(n ast.Node) bool {
			switch x := n.(type) {
			case *ast.SelectorExpr:
				if f := fieldSel(info, urecv, x); f != "" {
					ci.readKeys = appendUniq(ci.readKeys, f)
				}
			case *ast.BinaryExpr:
				if x.Op == token.NEQ {
					if id, ok := x.X.(*ast.Ident); ok && id.Name == "extra" && ci.readCnt < 0 {
						if tv, ok := info.Types[x.Y]; ok && tv.Value != nil {
							v, _ := constant.Int64Val(tv.Value)
							ci.readCnt = int(v)
						}
					}
				}
			}
			return true
		})
	}
	return ci, fields
}

// codecAgreement checks one cbor-gen type.
func codecAgreement(r *R, rule, rel, typeName string) {
	ci, fields := analyseCodec(r, rel, typeName)
	name := rel + "." + typeName
	site := rel
	if ci == nil {
		r.c.Stuck(rule, "codec:"+name, site, "type or package not found")
		return
	}
	for _, p := range ci.problems {
		r.c.Stuck(rule, "codec:"+name+"/"+p, site, "generated codec not in the shape the extractor understands: "+p)
	}
	if ci.kind == "" {
		r.c.Stuck(rule, "codec:"+name+"/header", site, "no CBOR header literal found in MarshalCBOR")
		return
	}
	r.c.Check(ci.count == len(fields), rule, name+"/header-count", site, fmt.Sprintf("header encodes %d entries = number of struct fields", ci.count),
		fmt.Sprintf("%s has %d fields but MarshalCBOR's header announces %d entries (codec not regenerated after a struct change): a field is silently dropped on reopen", typeName, len(fields), ci.count))
	fs := map[string]bool{}
	for _, f := range fields {
		fs[f] = true
	}
	if ci.kind == "map" {
		wk, rk := map[string]bool{}, map[string]bool{}
		for _, k := range ci.keys {
			if wk[k] {
				r.c.Bad(rule, name+"/dup-key:"+k, site, "key "+k+" written twice")
			}
			wk[k] = true
		}
		for _, k := range ci.readKeys {
			rk[k] = true
		}
		for _, f := range fields {
			refs := ci.refs[f]
			r.c.Check(wk[f] && len(refs) == 1 && refs[0] == f, rule, name+"/write:"+f, site, "written under its own key",
				fmt.Sprintf("field %s of %s is not written under key %q by MarshalCBOR (key present: %v, fields written under it: %v)", f, typeName, f, wk[f], refs))
			rrefs := ci.readRefs[f]
			r.c.Check(rk[f] && len(rrefs) == 1 && rrefs[0] == f, rule, name+"/read:"+f, site, "read back from its own key",
				fmt.Sprintf("field %s of %s is not restored from key %q by UnmarshalCBOR (case present: %v, fields assigned in it: %v): the value is lost or lands in another field when the store is reopened", f, typeName, f, rk[f], rrefs))
		}
		for k := range wk {
			if !fs[k] {
				r.c.Bad(rule, name+"/stray-write:"+k, site, "MarshalCBOR writes key "+k+" which is not a field of "+typeName)
			}
		}
		for k := range rk {
			if !fs[k] {
				r.c.Bad(rule, name+"/stray-read:"+k, site, "UnmarshalCBOR reads key "+k+" which is not a field of "+typeName)
			}
		}
	} else {
		r.c.Check(strings.Join(ci.keys, ",") == strings.Join(fields, ","), rule, name+"/write-order", site, "fields written in declaration order",
			fmt.Sprintf("tuple encoding of %s writes fields [%s], struct declares [%s]", typeName, strings.Join(ci.keys, ","), strings.Join(fields, ",")))
		r.c.Check(strings.Join(ci.readKeys, ",") == strings.Join(fields, ","), rule, name+"/read-order", site, "fields read in declaration order",
			fmt.Sprintf("tuple decoding of %s reads fields [%s], struct declares [%s]", typeName, strings.Join(ci.readKeys, ","), strings.Join(fields, ",")))
		r.c.Check(ci.readCnt == len(fields), rule, name+"/read-count", site, "decoder expects the same number of entries", fmt.Sprintf("decoder of %s expects %d entries, struct has %d fields", typeName, ci.readCnt, len(fields)))
	}
}
