package rules

import (
	"fmt"
	"sort"
	"strings"

	"dtcheck/internal/core"

	"golang.org/x/tools/go/ssa"
)

// guardSpec is one line of the guarded-by table (DESIGN E7b): every access to
// Owner.Field in production code happens while Lock (an id as produced by
// lockID) is held, except in the listed constructors (object not yet
// published) and in functions documented "must be called under the lock",
// which are checked at each of their call sites instead.
type guardSpec struct {
	Owner, Field, Lock string
	WriteNeedsW        bool
	Reason             string
	// ZeroOK: having no shared access at all (only local value copies) is fine
	ZeroOK bool
}

// lockedCallees: functions whose contract is "caller holds the lock".
var lockedCallees = map[string]string{
	"(*transport/graphsync.dtChannel).cancel":            "transport/graphsync.dtChannel.lk",
	"(*transport/graphsync.dtChannel).gsDataRequestRcvd": "transport/graphsync.dtChannel.lk",
}

// constructors: the object is not yet shared.
var constructorFns = map[string]bool{
	"channelmonitor.newMonitoredChannel":             true,
	"channelmonitor.NewMonitor":                      true,
	"(*transport/graphsync.Transport).newDTChannel":  true,
	"transport/graphsync.NewTransport":               true,
	"transport/graphsync.newRequestIDToChannelIDMap": true,
	"channels.newBlockIndexCache":                    true,
	"channels.newProgressCache":                      true,
	"channelsubscriptions.NewChannelSubscriptions":   true,
	"transportoptions.NewTransportOptions":           true,
	"tracing.NewSpansIndex":                          true,
	"registry.NewRegistry":                           true,
	"impl.newTimeCounter":                            true,
}

type fieldAccess struct {
	fn    *ssa.Function
	ins   ssa.Instruction
	write bool
}

// fieldAccesses finds loads/stores of owner.field in production functions.
func fieldAccesses(p *core.Prog, owner, field string) []fieldAccess {
	var out []fieldAccess
	for _, fn := range p.Prod {
		if isGenerated(p, fn) {
			continue
		}
		for _, b := range fn.Blocks {
			for _, ins := range b.Instrs {
				fa, ok := ins.(*ssa.FieldAddr)
				if !ok {
					continue
				}
				o, f := core.FieldOwner(fa)
				if o != owner || f != field {
					continue
				}
				if al, ok := fa.X.(*ssa.Alloc); ok && !al.Heap {
					// a field of a local value copy: not shared memory
					continue
				}
				for _, ref := range *fa.Referrers() {
					switch u := ref.(type) {
					case *ssa.Store:
						if u.Addr == fa {
							out = append(out, fieldAccess{fn, u, true})
						}
					case *ssa.UnOp:
						out = append(out, fieldAccess{fn, u, false})
					case *ssa.MapUpdate:
						out = append(out, fieldAccess{fn, u, true})
					case *ssa.DebugRef:
					default:
						// address escapes (passed to a call etc.): treat as a write access at that point
						if ri, ok := ref.(ssa.Instruction); ok {
							out = append(out, fieldAccess{fn, ri, true})
						}
					}
				}
			}
		}
	}
	return out
}

// mapMutations: for map-typed fields the load of the field is followed by a
// MapUpdate / delete / Lookup / Range on the loaded map; those are the real
// accesses. We treat the field load itself as the access point (it happens
// immediately before in the same lock region) and additionally require the
// lock at the map operation.
func mapOps(p *core.Prog, fn *ssa.Function, load *ssa.UnOp) []struct {
	ins   ssa.Instruction
	write bool
} {
	var out []struct {
		ins   ssa.Instruction
		write bool
	}
	for _, ref := range *load.Referrers() {
		switch u := ref.(type) {
		case *ssa.MapUpdate:
			out = append(out, struct {
				ins   ssa.Instruction
				write bool
			}{u, true})
		case *ssa.Lookup:
			out = append(out, struct {
				ins   ssa.Instruction
				write bool
			}{u, false})
		case *ssa.Range:
			out = append(out, struct {
				ins   ssa.Instruction
				write bool
			}{u, false})
		case *ssa.Call:
			if bi, ok := u.Common().Value.(*ssa.Builtin); ok {
				out = append(out, struct {
					ins   ssa.Instruction
					write bool
				}{u, bi.Name() == "delete"})
			}
		}
	}
	return out
}

// guardedBy checks the table; scope restricts to accesses in functions for
// which inScope returns true (nil = all production functions).
func guardedBy(r *R, rule string, specs []guardSpec, outOfScope map[string]string) {
	p := r.p
	for _, sp := range specs {
		accs := fieldAccesses(p, sp.Owner, sp.Field)
		key := sp.Owner + "." + sp.Field
		n := 0
		var bad []string
		var badSite string
		for _, a := range accs {
			name := core.ShortFn(a.fn)
			top := core.ShortFn(core.TopLevel(a.fn))
			if constructorFns[top] {
				continue
			}
			if why, ok := outOfScope[top]; ok {
				_ = why
				continue
			}
			n++
			held := lockRegions(p, a.fn)[a.ins]
			ok := held.holds(sp.Lock)
			if ok && a.write && sp.WriteNeedsW && !held[sp.Lock+"/W"] {
				ok = false
			}
			if !ok {
				// caller-holds-lock contract?
				if lk, isLocked := lockedCallees[name]; isLocked && lk == sp.Lock {
					continue // checked at call sites below
				}
				if callersHold(p, a.fn, sp.Lock, a.write && sp.WriteNeedsW, 3) {
					continue // every call of this function is made with the lock held
				}
				kind := "read"
				if a.write {
					kind = "written"
				}
				bad = append(bad, fmt.Sprintf("%s %s in %s without holding %s (held: %s)", key, kind, name, sp.Lock, strings.Join(held.ids(), ",")))
				if badSite == "" {
					badSite = p.InstrPos(a.ins)
				}
			}
			// map operations on the loaded map
			if ld, isLoad := a.ins.(*ssa.UnOp); isLoad {
				for _, mo := range mapOps(p, a.fn, ld) {
					h := lockRegions(p, a.fn)[mo.ins]
					good := h.holds(sp.Lock)
					if good && mo.write && !h[sp.Lock+"/W"] {
						good = false
					}
					if !good {
						if lk, isLocked := lockedCallees[name]; isLocked && lk == sp.Lock {
							continue
						}
						if callersHold(p, a.fn, sp.Lock, mo.write, 3) {
							continue
						}
						bad = append(bad, fmt.Sprintf("map %s %s in %s without holding %s%s", key, map[bool]string{true: "mutated", false: "read"}[mo.write], name, sp.Lock, map[bool]string{true: " for writing", false: ""}[mo.write]))
						if badSite == "" {
							badSite = p.InstrPos(mo.ins)
						}
					}
				}
			}
		}
		if n == 0 && sp.ZeroOK {
			r.c.OK(rule, "guarded:"+key, "", "no access through shared memory (only local value copies)")
			continue
		}
		if n == 0 {
			r.c.Stuck(rule, "guarded:"+key, "", "no access to "+key+" found in scope: the field was renamed or the table is stale")
			continue
		}
		sort.Strings(bad)
		if len(bad) == 0 {
			r.c.OK(rule, "guarded:"+key, "", fmt.Sprintf("%d accesses, all under %s", n, sp.Lock))
		} else {
			r.c.Bad(rule, "guarded:"+key, badSite, "data race: "+strings.Join(bad, "; "))
		}
	}
	// call sites of caller-holds-lock functions
	for callee, lk := range lockedCallees {
		used := false
		for _, sp := range specs {
			if sp.Lock == lk {
				used = true
			}
		}
		if !used {
			continue
		}
		callers := p.Callers(callee)
		var fns []*ssa.Function
		for fn := range callers {
			fns = append(fns, fn)
		}
		sort.Slice(fns, func(i, j int) bool { return fns[i].String() < fns[j].String() })
		for _, fn := range fns {
			for _, s := range callers[fn] {
				held := lockRegions(p, fn)[s.(ssa.Instruction)]
				if !held[lk+"/W"] && callersHold(p, fn, lk, true, 3) {
					r.c.OK(rule, "locked-callee:"+callee+"←"+core.ShortFn(fn), p.InstrPos(s), "called from a helper all of whose callers hold "+lk)
					continue
				}
				r.c.Check(held[lk+"/W"], rule, "locked-callee:"+callee+"←"+core.ShortFn(fn), p.InstrPos(s), "called with "+lk+" held", callee+" must be called with "+lk+" held for writing; "+core.ShortFn(fn)+" calls it holding {"+strings.Join(held.ids(), ",")+"}")
			}
		}
	}
}

// atomicOnly checks that the listed struct fields are touched only through
// sync/atomic (address passed to an atomic function), outside constructors.
func atomicOnly(r *R, rule, owner, field string) {
	p := r.p
	n := 0
	for _, fn := range p.Prod {
		for _, b := range fn.Blocks {
			for _, ins := range b.Instrs {
				fa, ok := ins.(*ssa.FieldAddr)
				if !ok {
					continue
				}
				o, f := core.FieldOwner(fa)
				if o != owner || f != field {
					continue
				}
				if constructorFns[core.ShortFn(core.TopLevel(fn))] {
					continue
				}
				for _, ref := range *fa.Referrers() {
					if _, ok := ref.(*ssa.DebugRef); ok {
						continue
					}
					n++
					okAtomic := false
					if call, ok := ref.(*ssa.Call); ok {
						if sc := call.Common().StaticCallee(); sc != nil && sc.Pkg != nil && sc.Pkg.Pkg.Path() == "sync/atomic" {
							okAtomic = true
						}
					}
					r.c.Check(okAtomic, rule, fmt.Sprintf("atomic:%s.%s@%s#%d", owner, field, core.ShortFn(fn), n), p.InstrPos(ref.(ssa.Instruction)), "accessed through sync/atomic", fmt.Sprintf("%s.%s is accessed non-atomically in %s", owner, field, core.ShortFn(fn)))
				}
			}
		}
	}
	if n == 0 {
		r.c.Stuck(rule, "atomic:"+owner+"."+field, "", "no access found outside constructors")
	}
}

// callersHold reports whether fn runs only with lock held: it is a named
// function that is never used as a value, and every one of its (static) call
// sites is in a region holding the lock (for writing when w), or in a function
// for which the same is true.
func callersHold(p *core.Prog, fn *ssa.Function, lock string, w bool, depth int) bool {
	if fn.Parent() != nil || depth == 0 || usedAsValue(p, fn) {
		return false
	}
	callers := p.Callers(core.ShortFn(fn))
	if len(callers) == 0 {
		return false
	}
	for cf, ss := range callers {
		for _, s := range ss {
			if s.Common().StaticCallee() != fn {
				return false
			}
			held := lockRegions(p, cf)[s.(ssa.Instruction)]
			ok := held.holds(lock)
			if ok && w && !held[lock+"/W"] {
				ok = false
			}
			if !ok && !callersHold(p, cf, lock, w, depth-1) {
				return false
			}
		}
	}
	return true
}

var usedAsValueCache = map[*core.Prog]map[*ssa.Function]bool{}
var dynNames = map[string]bool{}

// usedAsValue: the function is referenced other than as the callee of a call
// (method value, stored in a struct, passed as a callback, go/defer).
func usedAsValue(p *core.Prog, fn *ssa.Function) bool {
	m := usedAsValueCache[p]
	if m == nil {
		m = map[*ssa.Function]bool{}
		usedAsValueCache[p] = m
		for f := range p.AllFuncs {
			if !p.InProd(f) && f.Synthetic == "" {
				continue
			}
			for _, b := range f.Blocks {
				for _, ins := range b.Instrs {
					var callee ssa.Value
					if ci, ok := ins.(ssa.CallInstruction); ok {
						if ci.Common().IsInvoke() {
							dynNames[ci.Common().Method.Name()] = true
						} else {
							callee = ci.Common().Value
						}
					}
					if mc, ok := ins.(*ssa.MakeClosure); ok {
						if g, ok := mc.Fn.(*ssa.Function); ok && g.Synthetic != "" {
							m[core.Unwrap(g)] = true // method value / thunk
						}
					}
					for _, op := range ins.Operands(nil) {
						if op == nil || *op == nil {
							continue
						}
						if g, ok := (*op).(*ssa.Function); ok && *op != callee {
							m[core.Unwrap(g)] = true
						}
					}
				}
			}
		}
	}
	if dynNames[fn.Name()] && fn.Signature.Recv() != nil {
		return true // may be reached through an interface
	}
	return m[fn]
}
