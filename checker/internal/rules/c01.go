package rules

import (
	"fmt"

	"dtcheck/internal/core"

	"golang.org/x/tools/go/ssa"
)

func init() {
	register("C01", "Decides the gates that make 'Completed' imply 'both ends finished cleanly': in impl.OnChannelCompleted every completion effect is dominated by completeErr==nil, the role test and a successful send of the Complete message (dominance facts over SSA); the completion events have only their confirmed emitters (who-may-call over resolved callees); the transport passes a nil completion error only on the RequestCompletedFull / lastError==nil paths and never reports a cancellation as completion (path enumeration with phi resolution); the FSM completion diamond (shared with C03); blocks are accounted only when they went on the wire, with size/index/uniqueness from the block (shared with C07.5/6), and a per-channel store stays marked registered for the channel's lifetime (shared with C16.5); the reply to a validation update announces the pause state the request is left in (shared C04.7) and the 2→3 migration carries every total over (shared C13.1). Not decided: block-store contents, byte totals, healing by restart — run-time data.",
		func(c *core.Ctx) {
			r := newR(c)
			c01Gates(r)
			c01Emitters(r)
			c01Transport(r)
			c07Transport(r)
			c16Store(r)
			// the responder's reply during (multi-round) finalization says paused exactly when
			// the request stays paused, so the initiator does not complete early (shared C04.7)
			c04Update(r)
			// byte totals survive the upgrade of a store written by the previous release (shared C13.1)
			c13Copy(r)
			f := fsmOrStuck(c, "C01.5")
			c03If(c, f)
			c03OnlyIf(c, f)
		})
}

func c01Gates(r *R) {
	occ := r.fn("C01.1", "impl", "manager", "OnChannelCompleted")
	if occ == nil {
		return
	}
	noErr := "+completeErr==nil"
	r.guardedCalls("C01.1", occ, false, "(*channels.Channels).FinishTransfer", 1, noErr, "+chid.Initiator==m.peerID")
	cr := r.guardedCalls("C01.1", occ, false, "dyn:message.CompleteResponse", 1, noErr, "-chid.Initiator==m.peerID")
	sm := r.guardedCalls("C01.1", occ, false, "(network.DataTransferNetwork).SendMessage", 1, noErr, "-chid.Initiator==m.peerID")
	if len(cr) != 1 || len(sm) != 1 {
		return
	}
	crV := r.v(cr[0])
	// C01.2: the message sent is the Complete response, to the initiator
	r.argIs("C01.2", sm[0], 1, "chid.Initiator", "the peer the final Complete is sent to")
	r.argIs("C01.2", sm[0], 2, crV+"#0", "the message sent")
	sent := "+" + r.v(sm[0]) + "==nil"
	r.guardedCalls("C01.2", occ, false, "(*channels.Channels).Complete", 1, noErr, "-chid.Initiator==m.peerID", sent)
	r.guardedCalls("C01.2", occ, false, "(*channels.Channels).BeginFinalizing", 1, noErr, "-chid.Initiator==m.peerID", sent)
	// the error path fails the channel with an error (never completes)
	ps := r.pathsOf("C01.1", occ)
	n := 0
	for _, pt := range ps {
		if !pt.Has("-completeErr==nil") {
			continue
		}
		n++
		bad := pt.Count(r.p.Is("(*channels.Channels).FinishTransfer", "(*channels.Channels).Complete", "(*channels.Channels).BeginFinalizing", "(network.DataTransferNetwork).SendMessage"))
		r.c.Check(bad == 0, "C01.1", fmt.Sprintf("errpath#%d", n), r.p.Pos(occ.Pos()), "no completion effect on a path with completeErr != nil", "completion effect on a path with a transport completion error: "+pt.Describe())
	}
	r.c.Floor("C01.1", n, 1, "error paths in OnChannelCompleted")
}

func c01Emitters(r *R) {
	r.emitters("C01.3", "FinishTransfer", "(*impl.manager).OnChannelCompleted")
	r.emitters("C01.3", "Complete", "(*impl.manager).OnChannelCompleted")
	r.emitters("C01.3", "BeginFinalizing", "(*impl.manager).OnChannelCompleted")
	r.emitters("C01.3", "ResponderCompletes", "(*impl.manager).OnResponseReceived")
	r.emitters("C01.3", "ResponderBeginsFinalization", "(*impl.manager).OnResponseReceived")
	r.emitters("C01.3", "Accept", "(*impl.manager).OnResponseReceived", "(*impl.manager).acceptRequest")
	// the transport's completion callback reaches only OnChannelCompleted's confirmed callers
	r.onlyCallers("C01.3", "(datatransfer.EventsHandler).OnChannelCompleted", 2,
		"(*transport/graphsync.Transport).gsCompletedResponseListener", "(*transport/graphsync.Transport).executeGsRequest")
}

// completionArgRule: on every path through the OnChannelCompleted call, the
// error argument is nil only when okAtom was assumed, and forbidden atoms never
// hold.
func completionArgRule(r *R, rule string, fn *ssa.Function, okAtom string, forbidden []string) {
	if fn == nil {
		return
	}
	site := r.one(rule, fn, "(datatransfer.EventsHandler).OnChannelCompleted")
	if site == nil {
		return
	}
	ps := pathsThrough(r.pathsOf(rule, fn), site)
	nNil, nErr := 0, 0
	for i, pt := range ps {
		e, _ := evOf(pt, site)
		arg := pt.ArgDesc(e, 1)
		key := fmt.Sprintf("%s/path#%d", core.ShortFn(fn), i+1)
		if arg == "nil" {
			nNil++
			r.c.Check(pt.Has(okAtom), rule, key, r.p.InstrPos(site), "nil completion error only under "+okAtom,
				"completion reported WITHOUT error on a path that did not establish "+okAtom+": "+pt.Describe())
		} else {
			nErr++
			r.c.Check(!pt.Has(okAtom), rule, key, r.p.InstrPos(site), "error passed on the not-complete path ("+arg+")", "completion error passed although "+okAtom+" holds: "+pt.Describe())
		}
		for _, f := range forbidden {
			neg := "-" + f[1:]
			r.c.Check(pt.Has(neg), rule, key+"/"+f, r.p.InstrPos(site), "cancellation excluded before reporting completion", "OnChannelCompleted is reached on a path that did not exclude "+f[1:]+" (a cancellation would be reported as a completion): "+pt.Describe())
		}
	}
	r.c.Floor(rule, nNil, 1, "paths reporting clean completion in "+core.ShortFn(fn))
	r.c.Floor(rule, nErr, 1, "paths reporting failed completion in "+core.ShortFn(fn))
}

func c01Transport(r *R) {
	gl := r.fn("C01.4", "transport/graphsync", "Transport", "gsCompletedResponseListener")
	completionArgRule(r, "C01.4", gl, "+graphsync.RequestCompletedFull==status", []string{"+graphsync.RequestCancelled==status"})
	ex := r.fn("C01.4", "transport/graphsync", "Transport", "executeGsRequest")
	if ex != nil {
		cr := r.one("C01.4", ex, "(*transport/graphsync.Transport).consumeResponses")
		if cr != nil {
			le := r.v(cr)
			completionArgRule(r, "C01.4", ex, "+"+le+"==nil", []string{
				"+" + le + ".(github.com/ipfs/go-graphsync.RequestClientCancelledErr)?#1",
				"+" + le + ".(github.com/ipfs/go-graphsync.RequestCancelledErr)?#1"})
		}
	}
}
