package rules

import (
	"fmt"
	"strings"

	"dtcheck/internal/core"

	"golang.org/x/tools/go/ssa"
)

func init() {
	register("C15", "Decides the shape of the retry loop and of inbound dispatch: every way around the stream-open loop passes the attempt-cap comparison (whose other edge returns an error) and a blocking select with a ctx.Done() case whose branch returns ctx.Err(); a stream is returned only when an attempt succeeded; SendMessage writes the message exactly once, resets the stream and reports a non-nil error when the write fails and closes it only on success; msgToStream encodes exactly once; handleNewStream hands each decoded message to exactly the handler of its kind with the stream's remote peer, and on a decode error resets, reports and leaves without invoking a handler; no method call on an unassigned message (defect D6, fixed). Not decided: the number of attempts at run time, 'promptly'.",
		func(c *core.Ctx) {
			r := newR(c)
			c15Open(r)
			c15Send(r)
			c15Dispatch(r)
			noCrashNilInvoke(r, "C15.4", "network/*")
			noCrashNilOnError(r, "C15.4", "network/*")
		})
}

func c15Open(r *R) {
	fn := r.fn("C15.1", "network", "libp2pDataTransferNetwork", "openStream")
	if fn == nil {
		return
	}
	ns := r.one("C15.1", fn, "(github.com/libp2p/go-libp2p/core/host.Host).NewStream")
	if ns == nil {
		return
	}
	e := r.v(ns) + "#1"
	var sel *ssa.Select
	for _, b := range fn.Blocks {
		for _, ins := range b.Instrs {
			if s, ok := ins.(*ssa.Select); ok && s.Blocking {
				sel = s
			}
		}
	}
	ctxState := -1
	if sel != nil {
		for i, st := range sel.States {
			if r.d.Of(st.Chan) == "ctx.Done()" {
				ctxState = i
			}
		}
	}
	r.c.Check(sel != nil && ctxState >= 0, "C15.1", "backoff-select-has-ctx", r.p.Pos(fn.Pos()), "the backoff wait has a ctx.Done() case", "the wait between stream-open attempts ignores context cancellation")
	nLoop, nOK, nCap, nCtx := 0, 0, 0, 0
	capAtom := ""
	for _, pt := range r.pathsOf("C15.1", fn) {
		// find the cap comparison atom on this path: "<attempts>+1 < impl.maxStreamOpenAttempts"
		for _, a := range pt.Atoms {
			if strings.HasSuffix(a.S, "<impl.maxStreamOpenAttempts") && strings.Contains(a.S, ".Attempt()+1:float64)") {
				capAtom = a.S
			}
		}
		switch pt.End {
		case "loop":
			nLoop++
			okSel := sel != nil && pt.PassesThrough(sel.Block())
			r.c.Check(capAtom != "" && pt.Has("+"+capAtom) && pt.Has("-"+e+"==nil") && okSel, "C15.1", fmt.Sprintf("retry-path#%d", nLoop), r.p.Pos(fn.Pos()),
				"another attempt only below the cap, after a failed attempt and a cancellable wait", "the open loop goes around without passing the attempt cap and the cancellable backoff wait: "+pt.Describe())
		case "return":
			if pt.RetDesc(0) != "nil" {
				nOK++
				r.c.Check(pt.Has("+"+e+"==nil") && pt.RetDesc(0) == r.v(ns)+"#0", "C15.1", fmt.Sprintf("success-path#%d", nOK), r.p.Pos(fn.Pos()), "stream returned exactly when an attempt succeeded", "a stream is returned without a successful attempt: "+pt.Describe())
			} else if capAtom != "" && pt.Has("-"+capAtom) {
				nCap++
				r.c.Check(pt.RetDesc(1) != "nil", "C15.1", fmt.Sprintf("cap-path#%d", nCap), r.p.Pos(fn.Pos()), "cap reached: error", "attempt cap reached without an error")
			} else if pt.RetDesc(1) == "ctx.Err()" {
				nCtx++
				want := fmt.Sprintf("+%d:int==%s#0", ctxState, r.d.Of(sel))
				r.c.Check(sel != nil && pt.Has(want), "C15.1", fmt.Sprintf("cancel-path#%d", nCtx), r.p.Pos(fn.Pos()), "cancellation during backoff returns ctx.Err()", "ctx.Err() returned on a path that did not take the ctx.Done() case")
			} else {
				r.c.Check(pt.RetDesc(1) != "nil", "C15.1", fmt.Sprintf("other-return#%d", len(r.c.Obs)), r.p.Pos(fn.Pos()), "no stream ⇒ error", "openStream returns neither a stream nor an error: "+pt.Describe())
			}
		}
	}
	r.c.Floor("C15.1", nLoop, 1, "retry paths of openStream")
	r.c.Floor("C15.1", nOK, 1, "success paths of openStream")
	r.c.Floor("C15.1", nCap, 1, "cap-reached paths of openStream")
	r.c.Floor("C15.1", nCtx, 1, "cancelled paths of openStream")
	r.argIs("C15.1", ns, 1, "id", "peer the stream is opened to")
}

func c15Send(r *R) {
	fn := r.fn("C15.2", "network", "libp2pDataTransferNetwork", "SendMessage")
	if fn != nil {
		os := r.one("C15.2", fn, "(*network.libp2pDataTransferNetwork).openStream")
		ms := r.one("C15.2", fn, "(*network.libp2pDataTransferNetwork).msgToStream")
		if os != nil && ms != nil {
			r.argIs("C15.2", os, 1, "p", "peer the message is sent to")
			s := r.v(os) + "#0"
			r.argIs("C15.2", ms, 1, s, "stream written to")
			w := r.v(ms)
			n := 0
			for _, pt := range r.pathsOf("C15.2", fn) {
				if pt.End != "return" {
					continue
				}
				nW := pt.Count(r.p.Is("(*network.libp2pDataTransferNetwork).msgToStream"))
				nReset := pt.Count(r.p.Is("(github.com/libp2p/go-libp2p/core/network.MuxedStream).Reset", "(github.com/libp2p/go-libp2p/core/network.Stream).Reset"))
				nClose := pt.Count(r.p.Is("(github.com/libp2p/go-libp2p/core/network.MuxedStream).Close", "(github.com/libp2p/go-libp2p/core/network.Stream).Close", "(io.Closer).Close"))
				n++
				key := fmt.Sprintf("SendMessage/path#%d", n)
				switch {
				case pt.Has("-" + w + "==nil"):
					ret := pt.RetDesc(0)
					r.c.Check(nW == 1 && nReset == 1 && nClose == 0 && ret != "nil" && !pt.Has("+"+ret+"==nil"), "C15.2", key, r.p.Pos(fn.Pos()), "failed write: stream reset, error reported", "a failed write does not reset the stream and report an error: "+pt.Describe())
				case pt.Has("+" + w + "==nil"):
					r.c.Check(nW == 1 && nReset == 0 && nClose == 1, "C15.2", key, r.p.Pos(fn.Pos()), "successful write: written once, stream closed", "a successful send does not write once and close the stream: "+pt.Describe())
				default:
					r.c.Check(nW == 0 && pt.RetDesc(0) != "nil", "C15.2", key, r.p.Pos(fn.Pos()), "no stream / conversion failed: error, nothing written", "SendMessage returns success without writing: "+pt.Describe())
				}
			}
			r.c.Floor("C15.2", n, 4, "paths of SendMessage")
		}
	}
	mt := r.fn("C15.2", "network", "libp2pDataTransferNetwork", "msgToStream")
	if mt != nil {
		n := 0
		for _, pt := range r.pathsOf("C15.2", mt) {
			if pt.End != "return" {
				continue
			}
			n++
			nNet := pt.Count(r.p.Is("(datatransfer.Message).ToNet"))
			if pt.RetDesc(0) == "nil" {
				r.c.Check(nNet == 1, "C15.2", fmt.Sprintf("msgToStream/ok#%d", n), r.p.Pos(mt.Pos()), "success ⇒ encoded exactly once", "msgToStream reports success without encoding the message exactly once: "+pt.Describe())
			} else {
				r.c.Check(nNet <= 1, "C15.2", fmt.Sprintf("msgToStream/err#%d", n), r.p.Pos(mt.Pos()), "at most one encoding", "message encoded more than once")
			}
		}
		r.c.Floor("C15.2", n, 2, "paths of msgToStream")
		// the write is bounded by the caller's deadline whenever the caller has one
		isSet := r.p.Is("(github.com/libp2p/go-libp2p/core/network.MuxedStream).SetWriteDeadline")
		nD, nT := 0, 0
		bad := ""
		for _, pt := range r.pathsOf("C15.2", mt) {
			i := pt.Index(isSet)
			if i < 0 {
				continue
			}
			got := pt.ArgDesc(pt.Evs[i], 0)
			switch {
			case pt.HasBefore(pt.Evs[i].Instr, "+ctx.Deadline()#1"):
				nD++
				if got != "ctx.Deadline()#0" && bad == "" {
					bad = "the caller's context has a deadline but the write deadline is " + got + ": " + pt.Describe()
				}
			case pt.HasBefore(pt.Evs[i].Instr, "-ctx.Deadline()#1"):
				nT++
				if got != "time.Now().Add(dtnet.sendMessageTimeout)" && bad == "" {
					bad = "without a caller deadline the write deadline is " + got + ", not now + the send timeout"
				}
			default:
				if bad == "" {
					bad = "write deadline set without asking the context for its deadline: " + pt.Describe()
				}
			}
		}
		r.c.Check(bad == "", "C15.2", "msgToStream/write-deadline", r.p.Pos(mt.Pos()), "write bounded by the caller's deadline, else by the send timeout", bad)
		r.c.Floor("C15.2", nD, 1, "paths of msgToStream with a caller deadline")
		r.c.Floor("C15.2", nT, 1, "paths of msgToStream without one")
	}
}

func c15Dispatch(r *R) {
	fn := r.fn("C15.3", "network", "libp2pDataTransferNetwork", "handleNewStream")
	if fn == nil {
		return
	}
	fnet := r.one("C15.3", fn, "dyn:message.FromNet")
	if fnet == nil {
		return
	}
	m, e := r.v(fnet)+"#0", r.v(fnet)+"#1"
	handlers := []string{"(network.Receiver).ReceiveRequest", "(network.Receiver).ReceiveResponse", "(network.Receiver).ReceiveRestartExistingChannelRequest"}
	nDisp, nErr := 0, 0
	for _, pt := range r.pathsOf("C15.3", fn) {
		if !pt.PassesThrough(fnet.Block()) {
			continue
		}
		nH := pt.Count(r.p.Is(handlers...))
		switch {
		case pt.Has("-" + e + "==nil"):
			nErr++
			key := fmt.Sprintf("decode-error-path#%d", nErr)
			eof := pt.Has("+"+e+"==io.EOF") || pt.Has("+"+e+"==io.ErrUnexpectedEOF")
			nReset := pt.Count(r.p.Is("(github.com/libp2p/go-libp2p/core/network.MuxedStream).Reset", "(github.com/libp2p/go-libp2p/core/network.Stream).Reset"))
			nRep := pt.Count(r.p.Is("(network.Receiver).ReceiveError"))
			if eof {
				r.c.Check(nH == 0 && pt.End == "return", "C15.3", key, r.p.Pos(fn.Pos()), "end of stream: leave", "a handler is invoked after end of stream")
			} else {
				r.c.Check(nH == 0 && nReset >= 1 && nRep == 1 && pt.End == "return", "C15.3", key, r.p.Pos(fn.Pos()), "malformed stream: reset, reported, no handler", "a malformed stream is not reset and reported exactly once without invoking a handler: "+pt.Describe())
			}
		case pt.Has("+" + e + "==nil"):
			nDisp++
			key := fmt.Sprintf("dispatch-path#%d", nDisp)
			want := ""
			switch {
			case pt.Has("+" + m + ".IsRequest()"):
				req := m + ".(datatransfer.Request)?"
				if pt.Has("+" + req + "#1") {
					if pt.Has("+" + req + "#0.IsRestartExistingChannelRequest()") {
						want = "(network.Receiver).ReceiveRestartExistingChannelRequest"
					} else if pt.Has("-" + req + "#0.IsRestartExistingChannelRequest()") {
						want = "(network.Receiver).ReceiveRequest"
					}
				}
			case pt.Has("-" + m + ".IsRequest()"):
				if pt.Has("+" + m + ".(datatransfer.Response)?#1") {
					want = "(network.Receiver).ReceiveResponse"
				}
			}
			if want == "" {
				r.c.Check(nH == 0, "C15.3", key, r.p.Pos(fn.Pos()), "no handler for a message of no kind", "a handler is invoked for a message whose kind was not established: "+pt.Describe())
			} else {
				r.c.Check(nH == 1 && pt.Count(r.p.Is(want)) == 1, "C15.3", key, r.p.Pos(fn.Pos()), "exactly the handler of the message's kind", "message not handed exactly once to "+want+": "+pt.Describe())
			}
		}
	}
	r.c.Floor("C15.3", nDisp, 3, "dispatch paths of handleNewStream")
	r.c.Floor("C15.3", nErr, 2, "decode-error paths of handleNewStream")
	_ = core.Short
}
