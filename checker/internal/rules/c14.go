package rules

import (
	"fmt"
	"sort"
	"strings"

	"dtcheck/internal/core"

	"golang.org/x/tools/go/ssa"
)

var monitorGuards = []guardSpec{
	{"channelmonitor.monitoredChannel", "restartedAt", "channelmonitor.monitoredChannel.restartLk", true, "in-flight marker", false},
	{"channelmonitor.monitoredChannel", "restartQueued", "channelmonitor.monitoredChannel.restartLk", true, "queued restart", false},
	{"channelmonitor.monitoredChannel", "consecutiveRestarts", "channelmonitor.monitoredChannel.restartLk", true, "attempt counter", false},
	{"channelmonitor.monitoredChannel", "cancel", "channelmonitor.monitoredChannel.shutdownLk", true, "shutdown marker", false},
	{"channelmonitor.monitoredChannel", "unsub", "channelmonitor.monitoredChannel.shutdownLk", true, "subscription", false},
	{"channelmonitor.Monitor", "channels", "channelmonitor.Monitor.lk", true, "monitored channels", false},
}

func init() {
	register("C14", "Decides the monitor's serialisation and verdict logic structurally: the restart bookkeeping (in-flight marker, queue flag, attempt counter), the shutdown marker / subscription and the channel table are accessed only under their locks (must-hold lock sets over SSA, every access); closeChannelAndShutdown closes the channel only when its own Shutdown call was the first (dominance), and Shutdown returns true exactly once per monitor (path rule: cancel cleared, unsubscribed); a restart requested while one is in flight only sets the queue flag, and after an attempt the queue flag either re-enters the loop (cleared, marker refreshed) or the marker is cleared and the loop ends (path rules incl. resolution of the restartAgain phi); the restart message is sent only while the incremented counter is within MaxConsecutiveRestarts, data events reset it; timers are created only for non-zero timeouts, and the subscriber leaves (after scheduling Shutdown) before acting once the channel is cleaning up or terminal; the manager API is driven only from monitoredChannel methods and channels are monitored only when monitoring is enabled. Not decided: timer expiry, debounce, overlap of attempts in time.",
		func(c *core.Ctx) {
			r := newR(c)
			guardedBy(r, "C14.1", monitorGuards, map[string]string{"(*channelmonitor.monitoredChannel).isRestarting": "test helper"})
			c14Shutdown(r)
			c14Restart(r)
			c14Bound(r)
			c14Timers(r)
			c14Callers(r)
			c14BeforeSend(r)
		})
}

func c14Shutdown(r *R) {
	fn := r.fn("C14.2", "channelmonitor", "monitoredChannel", "closeChannelAndShutdown")
	if fn != nil {
		sh := r.one("C14.2", fn, "(*channelmonitor.monitoredChannel).Shutdown")
		if sh != nil {
			for _, s := range r.guardedCalls("C14.2", fn, false, "(channelmonitor.monitorAPI).CloseDataTransferChannelWithError", 1, "+"+r.v(sh)) {
				r.argIs("C14.2", s, 1, "mc.chid", "channel closed")
				r.argIs("C14.2", s, 2, "cherr", "error the channel is closed with")
			}
		}
	}
	sd := r.fn("C14.2", "channelmonitor", "monitoredChannel", "Shutdown")
	if sd != nil {
		nT, nF := 0, 0
		for _, pt := range r.pathsOf("C14.2", sd) {
			if pt.End != "return" {
				continue
			}
			switch pt.RetDesc(0) {
			case "false":
				nF++
				r.c.Check(pt.Has("+mc.cancel==nil") && len(pt.StoresTo("mc.cancel")) == 0, "C14.2", fmt.Sprintf("Shutdown/already#%d", nF), r.p.Pos(sd.Pos()), "second shutdown reports false and changes nothing", "Shutdown returns false without the monitor having been shut down before: "+pt.Describe())
			case "true":
				nT++
				st := pt.StoresTo("mc.cancel")
				unsub := false
				for _, ev := range pt.Evs {
					if r.p.CalleeName(ev.C) == "dyn:mc.unsub" {
						unsub = true
					}
				}
				r.c.Check(pt.Has("-mc.cancel==nil") && len(st) == 1 && st[0] == "nil" && unsub, "C14.2", fmt.Sprintf("Shutdown/first#%d", nT), r.p.Pos(sd.Pos()), "first shutdown clears the marker and unsubscribes", "Shutdown reports 'first' without clearing the cancel marker and unsubscribing (a second close becomes possible): "+pt.Describe())
			default:
				r.c.Bad("C14.2", fmt.Sprintf("Shutdown/path#%d", len(r.c.Obs)), r.p.Pos(sd.Pos()), "Shutdown returns "+pt.RetDesc(0))
			}
		}
		r.c.Floor("C14.2", nT, 1, "first-shutdown paths")
		r.c.Floor("C14.2", nF, 1, "repeated-shutdown paths")
	}
	r.onlyCallers("C14.2", "(channelmonitor.monitorAPI).CloseDataTransferChannelWithError", 1, "(*channelmonitor.monitoredChannel).closeChannelAndShutdown")
}

func c14Restart(r *R) {
	fn := r.fn("C14.3", "channelmonitor", "monitoredChannel", "restartChannel")
	if fn == nil {
		return
	}
	// in flight ⇒ only queue
	// (decided per path, so that it reads the same when the locked sections are helpers)
	paths := r.pathsOf("C14.3", fn)
	nQ, nA := 0, 0
	okQ, okA := true, true
	var badQ, badA string
	for _, pt := range paths {
		for _, st := range pt.Stores() {
			if st.Addr == "mc.restartQueued" && st.Val == "true" {
				nQ++
				if !pt.HasBefore(st.Instr, "-mc.restartedAt.IsZero()") {
					okQ, badQ = false, pt.Describe()
				}
			}
		}
		for _, ev := range pt.Evs {
			if r.p.CalleeName(ev.C) == "(*channelmonitor.monitoredChannel).doRestartChannel" {
				nA++
				if !pt.HasBefore(ev.Instr, "+mc.restartedAt.IsZero()") {
					okA, badA = false, pt.Describe()
				}
			}
		}
	}
	r.c.Check(okQ, "C14.3", "queue-when-in-flight", r.p.Pos(fn.Pos()), "a restart is queued only while one is in flight", "restartQueued is set although no restart is in flight: "+badQ)
	r.c.Check(okA, "C14.3", core.ShortFn(fn)+"→(*channelmonitor.monitoredChannel).doRestartChannel", r.p.Pos(fn.Pos()), "an attempt is started only when none is in flight", "a restart attempt is started while another is in flight: "+badA)
	r.c.Floor("C14.3", nQ, 1, "stores of true to restartQueued")
	r.c.Floor("C14.3", nA, 1, "restart attempts on the paths of restartChannel")
	nAgain, nDone, nErr := 0, 0, 0
	for _, pt := range paths {
		if pt.Count(r.p.Is("(*channelmonitor.monitoredChannel).doRestartChannel")) == 0 {
			continue
		}
		switch {
		case pt.Has("-mc.doRestartChannel()==nil"):
			nErr++
			r.c.Check(pt.End == "return" && pt.Count(r.p.Is("(*channelmonitor.monitoredChannel).closeChannelAndShutdown")) == 1, "C14.3", fmt.Sprintf("attempt-failed#%d", nErr), r.p.Pos(fn.Pos()), "persistent failure closes the channel", "a failed restart attempt does not close the channel and stop: "+pt.Describe())
		case pt.Has("+mc.doRestartChannel()==nil") && pt.Has("+mc.restartQueued"):
			nAgain++
			q := pt.StoresTo("mc.restartQueued")
			at := pt.StoresTo("mc.restartedAt")
			ok := pt.End == "loop" && len(q) > 0 && q[len(q)-1] == "false" && len(at) > 0 && strings.HasPrefix(at[len(at)-1], "time.Now()")
			r.c.Check(ok, "C14.3", fmt.Sprintf("queued-restart#%d", nAgain), r.p.Pos(fn.Pos()), "queued restart is performed: flag cleared, marker refreshed, loop re-entered", "a restart queued during an attempt is lost (the loop is not re-entered with the flag cleared and the marker refreshed): "+pt.Describe())
		case pt.Has("+mc.doRestartChannel()==nil") && pt.Has("-mc.restartQueued"):
			nDone++
			at := pt.StoresTo("mc.restartedAt")
			ok := pt.End == "return" && len(at) > 0 && strings.HasPrefix(at[len(at)-1], "zero:") && pt.Count(r.p.Is("(*channelmonitor.monitoredChannel).doRestartChannel")) == 1
			r.c.Check(ok, "C14.3", fmt.Sprintf("restart-done#%d", nDone), r.p.Pos(fn.Pos()), "no queued restart: in-flight marker cleared, loop ends", "after an attempt with nothing queued the in-flight marker is not cleared (later restarts are never performed) or the loop does not end: "+pt.Describe())
		}
	}
	r.c.Floor("C14.3", nAgain, 1, "queued-restart paths")
	r.c.Floor("C14.3", nDone, 1, "restart-done paths")
	r.c.Floor("C14.3", nErr, 1, "attempt-failed paths")
	// the debounced entry point funnels into restartChannel only
	r.onlyCallers("C14.3", "(*channelmonitor.monitoredChannel).restartChannel", 1, "channelmonitor.newMonitoredChannel")
	r.onlyCallers("C14.3", "(*channelmonitor.monitoredChannel).doRestartChannel", 1, "(*channelmonitor.monitoredChannel).restartChannel", "(*channelmonitor.monitoredChannel).doRestartChannel")
}

func c14Bound(r *R) {
	fn := r.fn("C14.4", "channelmonitor", "monitoredChannel", "doRestartChannel")
	if fn != nil {
		// per path (helpers introduced later are walked through): the counter only ever
		// moves by one, each attempt comes after an increment, and is made only while the
		// incremented count is within the limit
		over := "mc.cfg.MaxConsecutiveRestarts<uint32(mc.consecutiveRestarts)"
		isSend := r.p.Is("(*channelmonitor.monitoredChannel).sendRestartMessage")
		nInc, nSend := 0, 0
		badInc, badOrder, badGuard := "", "", ""
		for _, pt := range r.pathsOf("C14.4", fn) {
			var incs []ssa.Instruction
			for _, st := range pt.Stores() {
				if st.Addr != "mc.consecutiveRestarts" {
					continue
				}
				nInc++
				incs = append(incs, st.Instr)
				if st.Val != "(mc.consecutiveRestarts+1:int)" && badInc == "" {
					badInc = "counter updated to " + st.Val + " on " + pt.Describe()
				}
			}
			seen := 0
			for _, ev := range pt.Evs {
				if !isSend(ev) {
					continue
				}
				nSend++
				seen++
				before := 0
				for _, in := range incs {
					if pt.Precedes(in, ev.Instr) {
						before++
					}
				}
				if before < seen && badOrder == "" {
					badOrder = "a restart attempt is made without counting it first: " + pt.Describe()
				}
				if !pt.HasBefore(ev.Instr, "-"+over) && badGuard == "" {
					badGuard = "a restart attempt is made without the incremented count having been found within MaxConsecutiveRestarts: " + pt.Describe()
				}
			}
		}
		if nInc == 0 {
			r.c.Bad("C14.4", "counter-increment", r.p.Pos(fn.Pos()), "doRestartChannel does not increment the consecutive-restart counter")
		} else {
			r.c.Check(badInc == "" && badOrder == "", "C14.4", "counter-increment", r.p.Pos(fn.Pos()), "counter incremented by one before each attempt", badInc+badOrder)
		}
		r.c.Check(badGuard == "", "C14.4", core.ShortFn(fn)+"→(*channelmonitor.monitoredChannel).sendRestartMessage", r.p.Pos(fn.Pos()), "attempts only within the limit", badGuard)
		r.c.Floor("C14.4", nSend, 1, "restart attempts on the paths of doRestartChannel")
		// the over-limit path returns an error without sending
		n := 0
		for _, pt := range r.pathsOf("C14.4", fn) {
			if pt.Has("+mc.cfg.MaxConsecutiveRestarts<uint32(mc.consecutiveRestarts)") {
				n++
				r.c.Check(pt.End == "return" && pt.RetDesc(0) != "nil" && pt.Count(r.p.Is("(*channelmonitor.monitoredChannel).sendRestartMessage")) == 0, "C14.4", fmt.Sprintf("over-limit#%d", n), r.p.Pos(fn.Pos()), "attempt limit reached: error, nothing sent", "restart attempted beyond MaxConsecutiveRestarts: "+pt.Describe())
			}
		}
		r.c.Floor("C14.4", n, 1, "over-limit paths of doRestartChannel")
	}
	rs := r.fn("C14.4", "channelmonitor", "monitoredChannel", "resetConsecutiveRestarts")
	if rs != nil {
		ok := false
		for _, b := range rs.Blocks {
			for _, ins := range b.Instrs {
				if st, isSt := ins.(*ssa.Store); isSt && r.d.Of(st.Addr) == "mc.consecutiveRestarts" && r.d.Of(st.Val) == "0:int" {
					ok = true
				}
			}
		}
		r.c.Check(ok, "C14.4", "reset-counter", r.p.Pos(rs.Pos()), "data progress resets the counter", "resetConsecutiveRestarts does not zero the counter")
	}
	sm := r.fn("C14.4", "channelmonitor", "monitoredChannel", "sendRestartMessage")
	if sm != nil {
		ct := r.one("C14.4", sm, "(channelmonitor.monitorAPI).ConnectTo")
		if ct != nil {
			for _, s := range r.guardedCalls("C14.4", sm, false, "(channelmonitor.monitorAPI).RestartDataTransferChannel", 1, "+"+r.v(ct)+"==nil") {
				r.argIs("C14.4", s, 1, "mc.chid", "channel restarted")
			}
		}
	}
}

func c14Timers(r *R) {
	for _, x := range []struct{ fn, cfg string }{{"watchForResponderAccept", "AcceptTimeout"}, {"watchForResponderComplete", "CompleteTimeout"}} {
		fn := r.fn("C14.5", "channelmonitor", "monitoredChannel", x.fn)
		for _, s := range r.guardedCalls("C14.5", fn, false, "time.NewTimer", 1, "-0:time.Duration==mc.cfg."+x.cfg) {
			r.argIs("C14.5", s, 0, "mc.cfg."+x.cfg, "timer duration")
		}
		// the timer branch closes through closeChannelAndShutdown (first-shutdown-wins)
		if fn != nil {
			n := len(r.sites(fn, true, "(*channelmonitor.monitoredChannel).closeChannelAndShutdown"))
			r.c.Check(n == 1, "C14.5", x.fn+"/closes-via-first-shutdown", r.p.Pos(fn.Pos()), "timeout closes through closeChannelAndShutdown", fmt.Sprintf("%s has %d calls to closeChannelAndShutdown", x.fn, n))
			d := len(r.sites(fn, true, "(channelmonitor.monitorAPI).CloseDataTransferChannelWithError"))
			r.c.Check(d == 0, "C14.5", x.fn+"/no-direct-close", r.p.Pos(fn.Pos()), "no direct close", x.fn+" closes the channel directly, bypassing the first-shutdown-wins rule")
		}
	}
	// subscriber
	sub := r.fn("C14.5", "channelmonitor", "monitoredChannel", "start$1")
	if sub != nil {
		own := "+channelState.ChannelID()==mc.chid"
		live := []string{own, "-channels.IsChannelCleaningUp(channelState.Status())", "-channels.IsChannelTerminated(channelState.Status())"}
		// decided per path (a handler the closure delegates to, if introduced later, is walked through)
		paths := r.pathsOf("C14.5", sub)
		want := map[string]string{
			"(*channelmonitor.monitoredChannel).resetConsecutiveRestarts": "DataSent|DataReceived", "(*channelmonitor.monitoredChannel).watchForResponderComplete": "FinishTransfer",
		}
		type verdict struct {
			site           ssa.Instruction
			name           string
			guard, trigger string
			n              int
		}
		by := map[string]*verdict{}
		var keys []string
		for _, pt := range paths {
			for _, ev := range pt.Evs {
				name := r.p.CalleeName(ev.C)
				act := name == "(*channelmonitor.monitoredChannel).resetConsecutiveRestarts" || name == "(*channelmonitor.monitoredChannel).watchForResponderComplete" ||
					strings.HasPrefix(name, "dyn:mc.restartChannelDebounced") || strings.HasPrefix(name, "dyn:cancelAcceptTimer") || strings.HasPrefix(name, "dyn:mc.watchForResponderAccept()")
				ci, isCall := ev.Instr.(ssa.CallInstruction)
				if !act || !isCall {
					continue
				}
				k := r.siteKey(ci)
				v := by[k]
				if v == nil {
					v = &verdict{site: ev.Instr, name: name}
					by[k] = v
					keys = append(keys, k)
				}
				v.n++
				for _, a := range live {
					if !pt.HasBefore(ev.Instr, a) && v.guard == "" {
						v.guard = "reached without " + a + " on " + pt.Describe()
					}
				}
				if w, ok := want[name]; ok {
					one := false
					for _, evn := range strings.Split(w, "|") {
						if pt.HasBefore(ev.Instr, "+"+evn+"==event.Code") {
							one = true
						}
					}
					if !one && v.trigger == "" {
						v.trigger = name + " is not triggered by " + w + " on " + pt.Describe()
					}
				}
			}
		}
		sort.Strings(keys)
		for _, k := range keys {
			v := by[k]
			r.c.Check(v.guard == "", "C14.5", "subscriber/"+k, r.p.InstrPos(v.site), "only for the monitored channel while it is live", v.guard)
			if w, ok := want[v.name]; ok {
				r.c.Check(v.trigger == "", "C14.5", "subscriber-event/"+k, r.p.InstrPos(v.site), "triggered by "+w, v.trigger)
			}
		}
		r.c.Floor("C14.5", len(keys), 5, "actions in the monitor's subscriber")
		// the cleaning-up / terminal branch schedules Shutdown and returns
		nS := 0
		for _, pt := range paths {
			if pt.Has("+channels.IsChannelCleaningUp(channelState.Status())") || pt.Has("+channels.IsChannelTerminated(channelState.Status())") {
				nS++
				goShut := false
				for _, ev := range pt.Evs {
					if ev.Kind == "go" && strings.Contains(r.p.CalleeName(ev.C), "Shutdown") {
						goShut = true
					}
				}
				r.c.Check(goShut && pt.HasBefore(pt.Evs[len(pt.Evs)-1].Instr, own) || (goShut && pt.Has(own)), "C14.5", fmt.Sprintf("subscriber/ended-path#%d", nS), r.p.Pos(sub.Pos()), "ended channel: monitor shut down", "the monitor is not shut down when its channel is cleaning up / terminal: "+pt.Describe())
			}
		}
		r.c.Floor("C14.5", nS, 2, "ended-channel paths in the subscriber")
	}
}

func c14Callers(r *R) {
	r.onlyCallers("C14.6", "(channelmonitor.monitorAPI).RestartDataTransferChannel", 1, "(*channelmonitor.monitoredChannel).sendRestartMessage")
	r.onlyCallers("C14.6", "(channelmonitor.monitorAPI).ConnectTo", 1, "(*channelmonitor.monitoredChannel).sendRestartMessage")
	r.onlyCallers("C14.6", "(*channelmonitor.monitoredChannel).sendRestartMessage", 1, "(*channelmonitor.monitoredChannel).doRestartChannel")
	r.onlyCallers("C14.6", "channelmonitor.newMonitoredChannel", 1, "(*channelmonitor.Monitor).addChannel")
	ac := r.fn("C14.6", "channelmonitor", "Monitor", "addChannel")
	r.guardedCalls("C14.6", ac, false, "channelmonitor.newMonitoredChannel", 1, "+m.enabled()", "-m.channels[chid]#1")
	if ac != nil {
		n := 0
		for _, pt := range r.pathsOf("C14.6", ac) {
			if pt.End != "return" {
				continue
			}
			if pt.Has("+m.channels[chid]#1") || pt.Has("-m.enabled()") {
				n++
				r.c.Check(pt.RetDesc(0) == "nil" && pt.Count(r.p.Is("channelmonitor.newMonitoredChannel")) == 0, "C14.6", fmt.Sprintf("addChannel/no-new-monitor#%d", n), r.p.Pos(ac.Pos()),
					"disabled / already monitored: nothing returned", "addChannel hands out a monitored channel it did not create (the caller's failure path then shuts down the live monitor of an existing channel): "+pt.Describe())
			}
		}
		r.c.Floor("C14.6", n, 2, "no-new-monitor paths of addChannel")
	}
	en := r.fn("C14.6", "channelmonitor", "Monitor", "enabled")
	if en != nil {
		ps, _ := r.p.Paths(en)
		r.c.Check(len(ps) == 1 && ps[0].RetDesc(0) == "(m.cfg!=nil)", "C14.6", "enabled", r.p.Pos(en.Pos()), "enabled = a config was given", "Monitor.enabled is no longer 'cfg != nil'")
	}
}

// c14BeforeSend (C14.7): the monitor is watching the channel before the
// opening request goes out (otherwise an Accept that arrives promptly is not
// seen and the accept timeout closes a healthy channel), it watches the channel
// that was created, and when the request cannot be sent the monitor that was
// added is shut down again.
func c14BeforeSend(r *R) {
	for _, x := range []struct{ fn, add, send string }{
		{"OpenPushDataChannel", "(*channelmonitor.Monitor).AddPushChannel", "(network.DataTransferNetwork).SendMessage"},
		{"OpenPullDataChannel", "(*channelmonitor.Monitor).AddPullChannel", "(datatransfer.Transport).OpenChannel"}} {
		fn := r.fn("C14.7", "impl", "manager", x.fn)
		cn := r.one("C14.7", fn, "(*channels.Channels).CreateNew")
		if fn == nil || cn == nil {
			continue
		}
		chid := r.v(cn) + "#0"
		nSend, nFail := 0, 0
		okOrder, okFail := "", ""
		for _, pt := range r.pathsOf("C14.7", fn) {
			is := pt.Index(r.p.Is(x.send))
			if is < 0 {
				continue
			}
			nSend++
			ia := pt.Index(r.p.Is(x.add))
			if (ia < 0 || ia > is || pt.ArgDesc(pt.Evs[ia], 0) != chid) && okOrder == "" {
				okOrder = "the opening request is sent before the monitor watches the created channel: " + pt.Describe()
			}
			sv := pt.Desc(pt.Evs[is].Instr.(ssa.Value))
			if pt.Has("-"+sv+"==nil") && ia >= 0 {
				mon := pt.Desc(pt.Evs[ia].Instr.(ssa.Value))
				// unless monitoring is disabled (no monitor was returned) the monitor is shut down
				if !pt.Has("+" + mon + "==nil") {
					nFail++
					if pt.Count(r.p.Is("(*channelmonitor.monitoredChannel).Shutdown")) != 1 && okFail == "" {
						okFail = "the request could not be sent but the monitor added for it keeps running: " + pt.Describe()
					}
				}
			}
		}
		r.c.Check(okOrder == "", "C14.7", x.fn+"/monitored-before-send", r.p.Pos(fn.Pos()), "the created channel is monitored before the request is sent", okOrder)
		r.c.Check(okFail == "", "C14.7", x.fn+"/unsent-request-unmonitored", r.p.Pos(fn.Pos()), "a request that could not be sent leaves no monitor behind", okFail)
		r.c.Floor("C14.7", nSend, 1, "sending paths of "+x.fn)
		r.c.Floor("C14.7", nFail, 1, "failed-send paths with a monitor in "+x.fn)
	}
}
