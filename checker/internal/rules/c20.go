package rules

import (
	"dtcheck/internal/core"
)

// The guarded-by table of the library's shared state (DESIGN C20.1), frozen
// from reading the code: one line per field.
var c20Guards = []guardSpec{
	{"transport/graphsync.Transport", "dtChannels", "transport/graphsync.Transport.dtChannelsLk", true, "channel table", false},
	{"transport/graphsync.dtChannel", "isOpen", "transport/graphsync.dtChannel.lk", true, "request state", false},
	{"transport/graphsync.dtChannel", "requestID", "transport/graphsync.dtChannel.lk", true, "current graphsync request", false},
	{"transport/graphsync.dtChannel", "completed", "transport/graphsync.dtChannel.lk", true, "completion signal of the current request", false},
	{"transport/graphsync.dtChannel", "requesterCancelled", "transport/graphsync.dtChannel.lk", true, "requester away", false},
	{"transport/graphsync.dtChannel", "xferStarted", "transport/graphsync.dtChannel.lk", true, "transfer started", false},
	{"transport/graphsync.dtChannel", "pendingExtensions", "transport/graphsync.dtChannel.lk", true, "queued messages", false},
	{"transport/graphsync.dtChannel", "storeRegistered", "transport/graphsync.dtChannel.optionsLk", true, "store registered", false},
	{"transport/graphsync.dtChannel", "maxLinksOption", "transport/graphsync.dtChannel.optionsLk", true, "max links", false},
	{"transport/graphsync.requestIDToChannelIDMap", "m", "transport/graphsync.requestIDToChannelIDMap.lk", true, "request→channel map", false},
	{"channels.blockIndexCache", "values", "channels.blockIndexCache.lk", true, "high-water marks", false},
	{"channels.progressCache", "values", "channels.progressCache.lk", true, "progress / limits", false},
	{"channels.progressState", "dataLimit", "channels.progressCache.lk", true, "cached limit (only when an entry is shared by pointer; value copies are exempt)", true},
	{"channelsubscriptions.ChannelSubscriptions", "subscriptions", "channelsubscriptions.ChannelSubscriptions.subscriptionsLk", true, "per-transfer subscribers", false},
	{"transportoptions.TransportOptions", "options", "transportoptions.TransportOptions.optionsLk", true, "transport options", false},
	{"tracing.SpansIndex", "spans", "tracing.SpansIndex.spansLk", true, "spans", false},
	{"registry.Registry", "entries", "registry.Registry.registryLk", true, "registered processors", false},
}

func init() {
	register("C20", "Decides lock discipline for all schedules: every access (load, store, map operation) to each field of the guarded-by table — the shared maps and per-channel state of the transport, the caches, the subscription table, transport options, spans, the registry, and the monitor's fields — happens with its lock in the must-hold set, functions documented 'must be called under the lock' are checked at every call site, constructors exempt; the id counter and the cache words are touched only through sync/atomic; the lock-order graph over the module's locks (acquisitions followed through the completed call graph incl. client callbacks that re-enter the manager API, errgroup joins, not across go statements) has no self-edge and no cycle apart from listed known findings; no blocking receive on a possibly-nil channel; blocking selects in the transport have a ctx.Done() case. Not decided: race-freedom of memory outside the table; liveness inside dependencies (e.g. go-statemachine used after Stop).",
		func(c *core.Ctx) {
			r := newR(c)
			c.Assumption("locks are abstracted by (owner type, field): two instances of one type are not distinguished; client-supplied subscribers may call the Manager API methods listed in the checker from inside the callback")
			out := map[string]string{
				"(*transport/graphsync.Transport).ChannelsForPeer": "diagnostic accessor outside the property's surface (DESIGN §7); reads dtChannel.requestID under dtChannelsLk only",
				"(*channelmonitor.monitoredChannel).isRestarting":  "test helper",
			}
			guardedBy(r, "C20.1", append(append([]guardSpec{}, c20Guards...), monitorGuards...), out)
			atomicOnly(r, "C20.2", "impl.timeCounter", "counter")
			c20CacheWords(r)
			lg := lockOrderRules(r, "C20.3")
			c.Stats["callbacks_under_lock"] = lg.callbacksUnderLock
			noCrashNilChan(r, "C20.5", "transport/graphsync/*", "channelmonitor/*", "impl/*", "network/*", "channels/*")
			c09Selects(r)
		})
}

// c20CacheWords: the *int64 / *uint64 words handed out by the caches are
// dereferenced only by sync/atomic functions.
func c20CacheWords(r *R) {
	for _, x := range []struct{ recv, fn, suffix string }{{"blockIndexCache", "updateIfGreater", "#0"}, {"progressCache", "progress", "#0.progress"}} {
		fn := r.fn("C20.2", "channels", x.recv, x.fn)
		gv := r.one("C20.2", fn, "(*channels."+x.recv+").getValue")
		if gv == nil {
			continue
		}
		word := r.v(gv) + x.suffix
		n, bad := 0, 0
		site := r.p.Pos(fn.Pos())
		for _, b := range fn.Blocks {
			for _, ins := range b.Instrs {
				switch u := ins.(type) {
				case *ssaUnOp:
					if u.Op.String() == "*" && isPtrToInt(u.X) && r.d.Of(u.X) == word {
						bad++
						site = r.p.InstrPos(u)
					}
				case *ssaStore:
					if isPtrToInt(u.Addr) && r.d.Of(u.Addr) == word {
						bad++
						site = r.p.InstrPos(u)
					}
				case *ssaCall:
					if sc := u.Common().StaticCallee(); sc != nil && sc.Pkg != nil && sc.Pkg.Pkg.Path() == "sync/atomic" && len(u.Common().Args) > 0 && r.d.Of(u.Common().Args[0]) == word {
						n++
					}
				}
			}
		}
		r.c.Check(bad == 0 && n >= 1, "C20.2", "cache-word:"+x.recv+"."+x.fn, site, "cache word accessed only through sync/atomic", "the shared cache word is read or written non-atomically in "+x.recv+"."+x.fn)
	}
}
