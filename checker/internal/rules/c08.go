package rules

import (
	"fmt"
	"strings"

	"dtcheck/internal/core"

	"golang.org/x/tools/go/ssa"
)

func init() {
	register("C08", "Decides the boundary and pairing logic of data limits: progressCache.progress returns 'limit != 0 ∧ total >= limit' with total the result of the atomic add (decision table over the finite ordering abstraction); ValidationResult.LeaveRequestPaused is exactly ForcePause ∨ (RequiresFinalization ∧ in finalization) ∨ (limit != 0 ∧ f >= limit) with f = Queued for a pull and Received for a push (exhaustive decision table, 128 assignments); fireProgressEvent sends DataLimitExceeded and returns ErrPause exactly on the pause outcome; the limited counter of each direction is the one the progress cache is seeded from (shared with C07.4); the pause is announced to the initiator with an Update(paused) message and signalled to graphsync; SetDataLimit updates the cache and the durable record with the same value; the validation update resumes / stays paused / closes as stated (shared with C04.7). Not decided: the block-by-block run over a size sequence; that graphsync stops sending when paused.",
		func(c *core.Ctx) {
			r := newR(c)
			f := fsmOrStuck(c, "C08.0")
			c08Progress(r)
			c08Leave(r)
			c08Fire(r, f)
			c07Direction(r, f)
			c07Seed(r)
			c08Announce(r)
			c08SetLimit(r, f)
			c04Update(r)
		})
}

func c08Progress(r *R) {
	fn := r.fn("C08.1", "channels", "progressCache", "progress")
	if fn == nil {
		return
	}
	gv := r.one("C08.1", fn, "(*channels.progressCache).getValue")
	add := r.one("C08.1", fn, "sync/atomic.AddUint64")
	if gv == nil || add == nil {
		return
	}
	st := r.v(gv) + "#0"
	r.argIs("C08.1", gv, 0, "chid", "progress cache key")
	r.argIs("C08.1", gv, 1, "readFromOriginal", "durable progress reader")
	r.argIs("C08.1", add, 0, st+".progress", "the counter the delta is added to")
	r.argIs("C08.1", add, 1, "additionalData", "the delta")
	total := r.v(add)
	aErr, aZero, aLess := r.v(gv)+"#1==nil", "0:uint64=="+st+".dataLimit", total+"<"+st+".dataLimit"
	r.table("C08.1", fn, 0, []string{aErr, aZero, aLess}, func(a map[string]bool) string {
		if !a[aErr] {
			return "false"
		}
		return b2s(!a[aZero] && !a[aLess])
	})
}

func c08Leave(r *R) {
	fn := r.fn("C08.2", "", "ValidationResult", "LeaveRequestPaused")
	atoms := []string{"vr.ForcePause", "vr.RequiresFinalization", "chst.Status().InFinalization()", "chst.IsPull()", "0:uint64==vr.DataLimit",
		"chst.Queued()<vr.DataLimit", "chst.Received()<vr.DataLimit"}
	r.table("C08.2", fn, 0, atoms, func(a map[string]bool) string {
		if a["vr.ForcePause"] {
			return "true"
		}
		if a["vr.RequiresFinalization"] && a["chst.Status().InFinalization()"] {
			return "true"
		}
		if a["0:uint64==vr.DataLimit"] {
			return "false"
		}
		if a["chst.IsPull()"] {
			return b2s(!a["chst.Queued()<vr.DataLimit"])
		}
		return b2s(!a["chst.Received()<vr.DataLimit"])
	})
	// InFinalization is membership in the finalization statuses
	inf := r.fn("C08.2", "", "Status", "InFinalization")
	if inf != nil {
		ps := r.pathsOf("C08.2", inf)
		ok := len(ps) == 1 && ps[0].RetDesc(0) == "datatransfer.FinalizationStatuses.Contains(s)"
		r.c.Check(ok, "C08.2", "InFinalization", r.p.Pos(inf.Pos()), "membership in FinalizationStatuses", "Status.InFinalization is no longer FinalizationStatuses.Contains(s)")
	}
}

func c08Fire(r *R, f *core.FSM) {
	fp := r.fn("C08.3", "channels", "Channels", "fireProgressEvent")
	if fp == nil {
		return
	}
	cev := r.one("C08.3", fp, "(*channels.Channels).checkEvents")
	if cev == nil {
		return
	}
	c := r.v(cev)
	send := r.p.Is("(github.com/filecoin-project/go-statemachine/fsm.Group).Send")
	nPause, n := 0, 0
	for _, pt := range r.pathsOf("C08.3", fp) {
		if pt.End != "return" {
			continue
		}
		n++
		key := fmt.Sprintf("fire/path#%d", n)
		nDLE := 0
		var dle core.Ev
		for _, ev := range pt.Evs {
			if send(ev) && pt.ArgDesc(ev, 1) == "DataLimitExceeded" && pt.ArgDesc(ev, 0) == "chid" {
				nDLE++
				dle = ev
			}
		}
		reached := pt.Has("+"+c+"#2==nil") && !hasNegPrefix(pt, "c.stateMachines.Send(chid,progressEvt") && !hasNegPrefix(pt, "c.stateMachines.Send(chid,evt")
		if reached && pt.Has("+"+c+"#0") {
			nPause++
			okRet := pt.RetDesc(0) == "ErrPause"
			if nDLE == 1 && pt.Has("-"+pt.Desc(dle.Instr.(ssa.Value))+"==nil") {
				okRet = pt.RetDesc(0) == pt.Desc(dle.Instr.(ssa.Value))
			}
			r.c.Check(nDLE == 1 && okRet, "C08.3", key+"/pause", r.p.Pos(fp.Pos()), "limit reached: DataLimitExceeded sent once and ErrPause returned", "the report that reaches the limit does not send DataLimitExceeded once and return the pause signal: "+pt.Describe())
		} else {
			r.c.Check(nDLE == 0 && pt.RetDesc(0) != "ErrPause", "C08.3", key+"/no-pause", r.p.Pos(fp.Pos()), "no pause signal without reaching the limit", "pause signalled (DataLimitExceeded / ErrPause) on a path where the limit was not reached: "+pt.Describe())
		}
	}
	r.c.Floor("C08.3", nPause, 2, "pausing paths of fireProgressEvent")
	if fn := f.Action["DataLimitExceeded"]; fn != nil {
		sts := storesTo(fn, "ResponderPaused")
		r.c.Check(len(sts) == 1 && f.ActionD(r.p, "DataLimitExceeded").Of(sts[0].Val) == "true", "C08.3", "DataLimitExceeded/action", r.p.Pos(fn.Pos()), "marks the responder paused", "the DataLimitExceeded action does not set ResponderPaused = true")
	}
}

func hasNegPrefix(pt *core.Path, prefix string) bool {
	for _, a := range pt.Atoms {
		if !a.Pol && strings.HasPrefix(a.S, prefix) && strings.HasSuffix(a.S, "==nil") {
			return true
		}
	}
	return false
}

func c08Announce(r *R) {
	// OnDataReceived: under ErrPause tell the initiator with Update(paused)
	fn := r.fn("C08.5", "impl", "manager", "OnDataReceived")
	if fn != nil {
		dr := r.one("C08.5", fn, "(*channels.Channels).DataReceived")
		if dr != nil {
			e := r.v(dr)
			n := 0
			for _, pt := range r.pathsOf("C08.5", fn) {
				if pt.End != "return" {
					continue
				}
				sm := pt.Index(r.p.Is("(network.DataTransferNetwork).SendMessage"))
				if pt.Has("+ErrPause==" + e) {
					n++
					ok := sm >= 0 && pt.ArgDesc(pt.Evs[sm], 1) == "chid.Initiator" && pt.ArgDesc(pt.Evs[sm], 2) == "dyn:message.UpdateResponse(chid.ID,true)"
					okRet := pt.RetDesc(0) == e
					if sm >= 0 && pt.Has("-"+pt.Desc(pt.Evs[sm].Instr.(ssa.Value))+"==nil") {
						// send failed: an error (the send's, a wrapping of it, or the pause signal)
						// must still reach the transport — returning a value that may be nil lets
						// blocks keep flowing past the limit
						ret := pt.RetDesc(0)
						okRet = ret == pt.Desc(pt.Evs[sm].Instr.(ssa.Value)) || ret == e || strings.HasPrefix(ret, "fmt.Errorf(") || strings.HasPrefix(ret, "errors.New(")
					}
					r.c.Check(ok && okRet, "C08.5", fmt.Sprintf("OnDataReceived/pause-path#%d", n), r.p.Pos(fn.Pos()), "pause announced to the initiator with Update(paused) and signalled to the transport",
						"on the pause signal the initiator is not told with UpdateResponse(chid.ID, true) sent to chid.Initiator (or ErrPause is not passed on): "+pt.Describe())
				} else {
					r.c.Check(sm < 0 && pt.RetDesc(0) == e, "C08.5", fmt.Sprintf("OnDataReceived/plain-path#%d", len(r.c.Obs)), r.p.Pos(fn.Pos()), "no pause message without the pause signal", "a pause message is sent without the pause signal: "+pt.Describe())
				}
			}
			r.c.Floor("C08.5", n, 1, "pause paths of OnDataReceived")
		}
	}
	fq := r.fn("C08.5", "impl", "manager", "OnDataQueued")
	if fq != nil {
		dq := r.one("C08.5", fq, "(*channels.Channels).DataQueued")
		if dq != nil {
			e := r.v(dq)
			aP := "ErrPause==" + e
			r.table("C08.5", fq, 0, []string{aP}, func(a map[string]bool) string {
				if a[aP] {
					return "dyn:message.UpdateResponse(chid.ID,true)"
				}
				return "nil"
			})
			r.table("C08.5/err", fq, 1, []string{aP}, func(a map[string]bool) string { return e })
		}
	}
	// transport hooks: ErrPause ⇒ pause, other error ⇒ terminate
	for _, h := range []struct {
		hook, cb, pause string
		errIdx          string
	}{
		{"gsIncomingBlockHook", "OnDataReceived", "(github.com/ipfs/go-graphsync.IncomingBlockHookActions).PauseRequest", ""},
		{"gsOutgoingBlockHook", "OnDataQueued", "(github.com/ipfs/go-graphsync.OutgoingBlockHookActions).PauseResponse", "#1"},
	} {
		fn := r.fn("C08.5", "transport/graphsync", "Transport", h.hook)
		s := r.one("C08.5", fn, "(datatransfer.EventsHandler)."+h.cb)
		if s == nil {
			continue
		}
		e := r.v(s) + h.errIdx
		pause := r.p.Is(h.pause)
		term := r.p.Is(strings.Replace(h.pause[:strings.LastIndex(h.pause, ".")], "", "", 0) + ".TerminateWithError")
		nP, nT := 0, 0
		for _, pt := range pathsThrough(r.pathsOf("C08.5", fn), s) {
			if pt.End != "return" {
				continue
			}
			switch {
			case pt.Has("+ErrPause==" + e):
				nP++
				r.c.Check(pt.Count(pause) == 1, "C08.5", fmt.Sprintf("%s/pause-path#%d", h.hook, nP), r.p.Pos(fn.Pos()), "ErrPause pauses the graphsync request/response", "the pause signal does not pause graphsync: "+pt.Describe())
			case pt.Has("-"+e+"==nil") && pt.Has("-ErrPause=="+e):
				nT++
				r.c.Check(pt.Count(term) >= 1 && pt.Count(pause) == 0, "C08.5", fmt.Sprintf("%s/error-path#%d", h.hook, nT), r.p.Pos(fn.Pos()), "other errors terminate", "an error other than the pause signal does not terminate the request: "+pt.Describe())
			default:
				r.c.Check(pt.Count(pause) == 0, "C08.5", fmt.Sprintf("%s/ok-path#%d", h.hook, len(r.c.Obs)), r.p.Pos(fn.Pos()), "no pause without the signal", "graphsync paused without the pause signal: "+pt.Describe())
			}
		}
		r.c.Floor("C08.5", nP, 1, "pause paths of "+h.hook)
		r.c.Floor("C08.5", nT, 1, "error paths of "+h.hook)
	}
}

func c08SetLimit(r *R, f *core.FSM) {
	fn := r.fn("C08.6", "channels", "Channels", "SetDataLimit")
	if fn != nil {
		ps := r.pathsOf("C08.6", fn)
		for i, pt := range ps {
			ic := pt.Index(r.p.Is("(*channels.progressCache).setDataLimit"))
			is := pt.Index(r.p.Is("(*channels.Channels).send"))
			ok := ic >= 0 && is >= 0 && pt.ArgDesc(pt.Evs[ic], 0) == "chid" && pt.ArgDesc(pt.Evs[ic], 1) == "dataLimit" &&
				pt.ArgDesc(pt.Evs[is], 0) == "chid" && pt.ArgDesc(pt.Evs[is], 1) == "SetDataLimit" && pt.ArgDesc(pt.Evs[is], 2) == "[dataLimit]"
			r.c.Check(ok, "C08.6", fmt.Sprintf("SetDataLimit/path#%d", i+1), r.p.Pos(fn.Pos()), "cache and durable record updated with the same limit", "SetDataLimit does not update both the progress cache and the durable record with the new limit: "+pt.Describe())
		}
		r.c.Floor("C08.6", len(ps), 1, "paths of SetDataLimit")
	}
	if a := f.Action["SetDataLimit"]; a != nil && len(a.Params) == 2 {
		sts := storesTo(a, "DataLimit")
		r.c.Check(len(sts) == 1 && r.d.Of(sts[0].Val) == core.ParamName(a.Params[1]), "C08.6", "SetDataLimit/action", r.p.Pos(a.Pos()), "DataLimit := argument", "the SetDataLimit action does not store its argument to DataLimit")
	}
	// cache side: the new limit replaces the cached one under the write lock
	sc := r.fn("C08.6", "channels", "progressCache", "setDataLimit")
	if sc != nil {
		held := lockRegions(r.p, sc)
		n := 0
		for _, b := range sc.Blocks {
			for _, ins := range b.Instrs {
				mu, ok := ins.(*ssa.MapUpdate)
				if !ok {
					continue
				}
				n++
				v := r.d.Of(mu.Value)
				okv := false
				if ld, ok := mu.Value.(*ssa.UnOp); ok {
					if al, ok := ld.X.(*ssa.Alloc); ok {
						for _, i2 := range b.Instrs {
							if i2 == ins {
								break
							}
							if st, ok := i2.(*ssa.Store); ok {
								if fa, ok := st.Addr.(*ssa.FieldAddr); ok && fa.X == al {
									if _, fld := core.FieldOwner(fa); fld == "dataLimit" && r.d.Of(st.Val) == "newLimit" {
										okv = true
									}
								}
							}
						}
					}
				}
				r.c.Check(held[mu]["channels.progressCache.lk/W"] && r.d.Of(mu.Key) == "chid" && okv, "C08.6", "setDataLimit/cache-write", r.p.InstrPos(mu), "cached limit replaced under the write lock",
					"the cached data limit is not replaced by the new limit under the write lock (value written: "+v+")")
			}
		}
		r.c.Floor("C08.6", n, 1, "map writes in progressCache.setDataLimit")
	}
	r.onlyCallers("C08.6", "(*channels.progressCache).setDataLimit", 1, "(*channels.Channels).SetDataLimit")
}
