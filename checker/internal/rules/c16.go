package rules

import (
	"fmt"
	"sort"
	"strings"

	"dtcheck/internal/core"

	"golang.org/x/tools/go/ssa"
)

func init() {
	register("C16", "Decides routing structurally for every call of the events handler in the graphsync transport: the channel id it reports comes from the request→channel map lookup for the callback's own request id under ok == true, from the literal built from the hook's authenticated peer and the local peer, from the gsReq the request was opened with, or from the map iteration filtered to the affected peer; hooks return before any event when the request is unknown or carries no data-transfer extension; the map is written only when a request is opened/received and only for that channel, and a channel's entries are deleted on cleanup; queued/sent accounting only for blocks on the wire (shared with C07); pause/resume/cancel act on the channel's current request id, read under the channel lock and only when present; a completed response is reported once with an error unless complete in full, cancellations are not completions (shared with C01.4); a per-channel store is marked registered only after a successful registration, never un-marked, and unregistered on cleanup. Not decided: isolation over interleavings as such (follows from the above given Go map semantics).",
		func(c *core.Ctx) {
			r := newR(c)
			c16Events(r)
			c16MapWriters(r)
			c16Cleanup(r, "C16.3")
			c16Current(r)
			c16Store(r)
			c01Transport(r)
			c07Transport(r)
			c05Extension(r)
		})
}

// c16Events: provenance of the channel id of every events-handler call.
func c16Events(r *R) {
	// Every call of the events handler made by the transport, judged on every path
	// of the function that makes it (a helper introduced after the reference tree is
	// walked through, so its sites are judged in its callers' terms).
	type verdict struct {
		site   ssa.Instruction
		ok     bool
		okText string
		detail string
	}
	by := map[string]*verdict{}
	var keys []string
	judge := func(fn *ssa.Function, pt *core.Path, ev core.Ev) {
		ci, isCall := ev.Instr.(ssa.CallInstruction)
		if !isCall {
			return
		}
		name := r.p.CalleeName(ev.C)
		key := r.siteKey(ci)
		v := by[key]
		if v == nil {
			v = &verdict{site: ev.Instr, ok: true}
			by[key] = v
			keys = append(keys, key)
		}
		chid := pt.ArgDesc(ev, 0)
		atoms := pt.AtomsBefore(ev.Instr)
		fail := func(d string) {
			if v.ok {
				v.ok, v.detail = false, d
			}
		}
		switch {
		case strings.HasPrefix(chid, "t.requestIDToChannelID.load(") && strings.HasSuffix(chid, "#0"):
			load := strings.TrimSuffix(chid, "#0")
			arg := strings.TrimSuffix(strings.TrimPrefix(load, "t.requestIDToChannelID.load("), ")")
			okArg := arg == "request.ID()" || arg == "response.RequestID()"
			v.okText = "channel looked up for the callback's own request id, and found"
			if !(core.HasAtom(atoms, core.Atom{S: load + "#1", Pol: true}) && okArg) {
				fail(fmt.Sprintf("%s is reported for %s without a successful lookup of the callback's own request id (facts: %s)", name, chid, strings.Join(core.AtomStrings(atoms), " ")))
			}
		case chid == "req.channelID":
			v.okText = "channel the graphsync request was opened for"
		case chid == "chid" && core.ShortFn(fn) == "(*transport/graphsync.Transport).processExtension":
			v.okText = "channel id checked against the message and lifted to the callers (C05.2)"
		case chid == "chid" && strings.HasPrefix(core.ShortFn(fn), "(*transport/graphsync.Transport).gsNetworkReceiveErrorListener$"):
			v.okText = "receive error reported only for channels with the affected peer"
			if !(pt.HasBefore(ev.Instr, "+chid.Initiator==p") || pt.HasBefore(ev.Instr, "+chid.Responder==p")) {
				fail("a receive network error for peer p is reported on channels that do not involve p")
			}
		case strings.HasPrefix(chid, "datatransfer.ChannelID{") || strings.HasPrefix(chid, "local:chid"):
			// literal from the hook's peer (checked in detail by C05.1)
			v.okText = "channel id built from the hook's peer and the local peer"
			if !(strings.HasPrefix(chid, "local:chid") || strings.Contains(chid, "phi:") || (strings.Contains(chid, "t.peerID") && (strings.Contains(chid, ":p,") || strings.HasSuffix(chid, ":p}")))) {
				fail(name + " reported for " + chid)
			}
		default:
			fail(fmt.Sprintf("%s is reported for channel %s, whose provenance is none of: request→channel lookup, hook-peer literal, opened gsReq, filtered map iteration", name, chid))
		}
	}
	for _, fn := range r.p.Prod {
		top := core.TopLevel(fn)
		if top.Pkg != r.p.SSAByRel["transport/graphsync"] {
			continue
		}
		if fn.Parent() == nil && core.IsNewFunc(fn) && len(r.p.Callers(core.ShortFn(fn))) > 0 {
			continue // judged where it is called
		}
		has := false
		for _, ci := range core.CallSites(fn) {
			if strings.HasPrefix(r.p.CalleeName(ci.Common()), "(datatransfer.EventsHandler).") {
				has = true
			}
			if sc := ci.Common().StaticCallee(); sc != nil && core.IsNewFunc(sc) {
				has = true
			}
		}
		if !has {
			continue
		}
		for _, pt := range r.pathsOf("C16.1", fn) {
			for _, ev := range pt.Evs {
				if strings.HasPrefix(r.p.CalleeName(ev.C), "(datatransfer.EventsHandler).") {
					judge(fn, pt, ev)
				}
			}
		}
	}
	sort.Strings(keys)
	n := len(keys)
	for _, k := range keys {
		v := by[k]
		r.c.Check(v.ok, "C16.1", k, r.p.InstrPos(v.site), v.okText, v.detail)
	}
	r.c.Stats["events_handler_call_sites"] = n
	r.c.Floor("C16.1", n, 15, "events-handler call sites in the graphsync transport")
	// hooks that look the request up return at once when it is unknown
	for _, h := range []string{"gsIncomingBlockHook", "gsBlockSentHook", "gsOutgoingBlockHook", "gsRequestProcessingListener", "gsCompletedResponseListener", "gsRequestUpdatedHook", "gsIncomingResponseHook", "gsRequestorCancelledListener", "gsNetworkSendErrorListener"} {
		fn := r.fn("C16.1", "transport/graphsync", "Transport", h)
		if fn == nil {
			continue
		}
		n := 0
		for _, pt := range r.pathsOf("C16.1", fn) {
			unknown := false
			for _, a := range pt.Atoms {
				if !a.Pol && strings.HasPrefix(a.S, "t.requestIDToChannelID.load(") && strings.HasSuffix(a.S, "#1") {
					unknown = true
				}
			}
			if !unknown {
				continue
			}
			n++
			acts := 0
			for _, ev := range pt.Evs {
				nm := r.p.CalleeName(ev.C)
				if strings.HasPrefix(nm, "(datatransfer.EventsHandler).") || strings.HasPrefix(nm, "(*transport/graphsync.dtChannel).") || nm == "(*transport/graphsync.Transport).processExtension" {
					acts++
				}
			}
			r.c.Check(acts == 0 && pt.End == "return", "C16.1", fmt.Sprintf("%s/unknown-request#%d", h, n), r.p.Pos(fn.Pos()), "unknown request: nothing happens", "a callback for an unknown graphsync request still produces an effect: "+pt.Describe())
		}
		r.c.Floor("C16.1", n, 1, "unknown-request paths of "+h)
	}
	// hooks that read the extension return when there is none
	for _, h := range []string{"gsReqRecdHook", "gsOutgoingRequestHook"} {
		fn := r.fn("C16.1", "transport/graphsync", "Transport", h)
		if fn == nil {
			continue
		}
		n := 0
		for _, pt := range r.pathsOf("C16.1", fn) {
			if !pt.Has("+transport/graphsync/extension.GetTransferData(request,t.supportedExtensions)#0==nil") {
				continue
			}
			n++
			acts := 0
			for _, ev := range pt.Evs {
				nm := r.p.CalleeName(ev.C)
				if strings.HasPrefix(nm, "(datatransfer.EventsHandler).") || strings.HasPrefix(nm, "(*transport/graphsync.dtChannel).") || nm == "(*transport/graphsync.Transport).trackDTChannel" {
					acts++
				}
			}
			r.c.Check(acts == 0, "C16.1", fmt.Sprintf("%s/no-extension#%d", h, n), r.p.Pos(fn.Pos()), "not a data-transfer request: nothing happens", "a graphsync request without a data-transfer extension produces a channel effect: "+pt.Describe())
		}
		r.c.Floor("C16.1", n, 1, "no-extension paths of "+h)
	}
}

func c16MapWriters(r *R) {
	r.onlyCallers("C16.2", "(*transport/graphsync.requestIDToChannelIDMap).set", 2, "(*transport/graphsync.dtChannel).gsReqOpened", "(*transport/graphsync.dtChannel).gsDataRequestRcvd")
	for _, x := range []struct{ fn, sending string }{{"gsReqOpened", "false"}, {"gsDataRequestRcvd", "true"}} {
		fn := r.fn("C16.2", "transport/graphsync", "dtChannel", x.fn)
		if s := r.one("C16.2", fn, "(*transport/graphsync.requestIDToChannelIDMap).set"); s != nil {
			r.argIs("C16.2", s, 0, "requestID", "graphsync request id mapped")
			r.argIs("C16.2", s, 1, x.sending, "direction flag")
			r.argIs("C16.2", s, 2, "c.channelID", "channel the request is mapped to")
			// on every path
			for i, pt := range r.pathsOf("C16.2", fn) {
				if pt.End == "return" {
					r.c.Check(pt.Count(r.p.Is("(*transport/graphsync.requestIDToChannelIDMap).set")) == 1, "C16.2", fmt.Sprintf("%s/mapped#%d", x.fn, i+1), r.p.Pos(fn.Pos()), "request mapped on every path", "a path of "+x.fn+" does not map the request to the channel")
				}
			}
		}
	}
	// the map's own writers
	st := r.fn("C16.2", "transport/graphsync", "requestIDToChannelIDMap", "set")
	if st != nil {
		held := lockRegions(r.p, st)
		n := 0
		for _, b := range st.Blocks {
			for _, ins := range b.Instrs {
				if mu, ok := ins.(*ssa.MapUpdate); ok {
					n++
					v := r.d.Of(mu.Value)
					r.c.Check(r.d.Of(mu.Key) == "key" && strings.Contains(v, "channelID:chid") && strings.Contains(v, "sending:sending") && held[mu]["transport/graphsync.requestIDToChannelIDMap.lk/W"], "C16.2", "set/write", r.p.InstrPos(mu), "m[key] = {sending, chid} under the write lock", "requestIDToChannelIDMap.set stores "+v+" under key "+r.d.Of(mu.Key))
				}
			}
		}
		r.c.Floor("C16.2", n, 1, "map writes in set")
	}
	ld := r.fn("C16.2", "transport/graphsync", "requestIDToChannelIDMap", "load")
	if ld != nil {
		ps, _ := r.p.Paths(ld)
		ok := len(ps) == 1 && ps[0].RetDesc(0) == "m.m[key]#0.channelID" && ps[0].RetDesc(1) == "m.m[key]#1"
		r.c.Check(ok, "C16.2", "load", r.p.Pos(ld.Pos()), "returns the entry of the key and whether it exists", "requestIDToChannelIDMap.load does not return the key's entry and its presence")
	}
}

func c16Current(r *R) {
	for _, x := range []struct{ fn, callee string }{{"pause", "(github.com/ipfs/go-graphsync.GraphExchange).Pause"}, {"resume", "(github.com/ipfs/go-graphsync.GraphExchange).Unpause"}} {
		fn := r.fn("C16.4", "transport/graphsync", "dtChannel", x.fn)
		if fn == nil {
			continue
		}
		held := lockRegions(r.p, fn)
		for _, s := range r.guardedCalls("C16.4", fn, false, x.callee, 1, "-c.requestID==nil", "-c.requesterCancelled") {
			r.argIs("C16.4", s, 1, "*c.requestID", "graphsync request acted on")
			r.c.Check(held[s.(ssa.Instruction)]["transport/graphsync.dtChannel.lk/W"], "C16.4", x.fn+"/under-lock", r.p.InstrPos(s), "under the channel lock", x.fn+" acts on the request id without holding the channel lock")
		}
	}
	cn := r.fn("C16.4", "transport/graphsync", "dtChannel", "cancel")
	if cn != nil {
		// the id cancelled is the one read before it is cleared
		var clr *ssa.Store
		for _, b := range cn.Blocks {
			for _, ins := range b.Instrs {
				if st, ok := ins.(*ssa.Store); ok && r.d.Of(st.Addr) == "c.requestID" && r.d.Of(st.Val) == "nil" {
					clr = st
				}
			}
		}
		r.c.Check(clr != nil, "C16.4", "cancel/clears-id", r.p.Pos(cn.Pos()), "request id cleared when cancelled", "cancel does not clear the channel's request id")
		if clr != nil {
			r.guarded("C16.4", clr, "cancel/guard", "-c.requestID==nil", "-c.requesterCancelled")
		}
		cl := r.p.Func("transport/graphsync", "dtChannel", "cancel$1")
		if cl != nil {
			if s := r.one("C16.4", cl, "(github.com/ipfs/go-graphsync.GraphExchange).Cancel"); s != nil {
				got := r.dOf(s.(ssa.Instruction)).Of(core.Arg(s.Common(), 1))
				r.c.Check(got == "*c.requestID", "C16.4", "cancel/id", r.p.InstrPos(s), "cancels the request id the channel held", "cancel acts on "+got)
			}
		}
	}
	// Transport-level entry points resolve the channel by id
	for _, x := range []struct{ fn, callee string }{{"PauseChannel", "(*transport/graphsync.dtChannel).pause"}, {"ResumeChannel", "(*transport/graphsync.dtChannel).resume"}, {"CloseChannel", "(*transport/graphsync.dtChannel).close"}} {
		fn := r.fn("C16.4", "transport/graphsync", "Transport", x.fn)
		gd := r.one("C16.4", fn, "(*transport/graphsync.Transport).getDTChannel")
		if gd == nil {
			continue
		}
		r.argIs("C16.4", gd, 0, "chid", "channel resolved")
		for _, s := range r.guardedCalls("C16.4", fn, false, x.callee, 1, "+"+r.v(gd)+"#1==nil") {
			r.argIs("C16.4", s, -1, r.v(gd)+"#0", "the resolved channel")
		}
	}
	gd := r.fn("C16.4", "transport/graphsync", "Transport", "getDTChannel")
	if gd != nil {
		n := 0
		for _, pt := range r.pathsOf("C16.4", gd) {
			if pt.End == "return" && pt.RetDesc(1) == "nil" {
				n++
				r.c.Check(pt.RetDesc(0) == "t.dtChannels[chid]#0" && pt.Has("+t.dtChannels[chid]#1"), "C16.4", fmt.Sprintf("getDTChannel/found#%d", n), r.p.Pos(gd.Pos()), "returns the channel registered under chid", "getDTChannel returns "+pt.RetDesc(0))
			}
		}
		r.c.Floor("C16.4", n, 1, "found paths of getDTChannel")
	}
}

// c16Store: a per-channel store is marked registered only after a successful
// registration and is never un-marked.
func c16Store(r *R) {
	n := 0
	for _, fn := range r.p.Prod {
		for _, b := range fn.Blocks {
			for _, ins := range b.Instrs {
				st, ok := ins.(*ssa.Store)
				if !ok {
					continue
				}
				fa, ok := st.Addr.(*ssa.FieldAddr)
				if !ok {
					continue
				}
				owner, fld := core.FieldOwner(fa)
				if owner != "transport/graphsync.dtChannel" || fld != "storeRegistered" {
					continue
				}
				n++
				name := core.ShortFn(fn)
				v := r.d.Of(st.Val)
				okFn := name == "(*transport/graphsync.dtChannel).useStore"
				r.c.Check(okFn && v == "true", "C16.5", "storeRegistered-writer:"+name, r.p.InstrPos(st), "set to true by useStore only", fmt.Sprintf("%s sets storeRegistered to %s: the flag must only ever be set (to true) after a successful registration — a failed re-registration must not un-mark a store that is still registered", name, v))
				if okFn {
					reg := r.one("C16.5", fn, "(github.com/ipfs/go-graphsync.GraphExchange).RegisterPersistenceOption")
					if reg != nil {
						r.guarded("C16.5", st, "storeRegistered-after-success", "+"+r.v(reg)+"==nil")
					}
				}
			}
		}
	}
	r.c.Floor("C16.5", n, 1, "stores to storeRegistered")
	for _, h := range []string{"gsReqOpened", "gsDataRequestRcvd"} {
		fn := r.fn("C16.5", "transport/graphsync", "dtChannel", h)
		for _, s := range r.guardedCalls("C16.5", fn, false, strings.Replace("(github.com/ipfs/go-graphsync.XHookActions).UsePersistenceOption", "X", map[string]string{"gsReqOpened": "OutgoingRequest", "gsDataRequestRcvd": "IncomingRequest"}[h], 1), 1, "+c.hasStore()") {
			r.argIs("C16.5", s, 0, `("data-transfer-"+c.channelID.String())`, "store the request uses")
		}
	}
}
