package rules

import (
	"fmt"
	"strings"

	"dtcheck/internal/core"

	"golang.org/x/tools/go/ssa"
)

func init() {
	register("C04", "Decides, for every path, that each acceptance effect of the responder (channel creation, FSM Open/Accept/Restart, transport options, connection protection, transport OpenChannel) is dominated by 'validator consulted, err == nil, result.Accepted' of the validator registered for the voucher type; that the reply's Accepted/Paused/voucher-result fields are the stated functions of the validator outcome (decision tables over path conditions); that rejection paths fail the channel with ErrRejected and close the transport; that the validation-update path resumes/pauses/closes under the stated conditions; and that the anchored functions cannot dereference a nil result or assert an unchecked registry lookup (no-crash rules). Not decided: what client validators/transports do; the voucher result's bytes on the wire.",
		func(c *core.Ctx) {
			r := newR(c)
			c.Assumption("client-supplied RequestValidator / Transport implementations are out of scope; the production transport is transport/graphsync")
			c04Accept(r)
			r.onlyCallers("C04.2", "(*channels.Channels).CreateNew", 3, "(*impl.manager).OpenPushDataChannel", "(*impl.manager).OpenPullDataChannel", "(*impl.manager).acceptRequest")
			c04Response(r, "C04.3")
			c04RequestError(r)
			c04Receiver(r)
			c04Restart(r)
			c04Update(r)
			c04Record(r)
			c04Transport(r)
			noCrashNilOnError(r, "C04.10", "impl/*")
			noCrashAssert(r, "C04.10", "impl/*")
			noCrashNilInvoke(r, "C04.10", "impl/*")
		})
}

// validatorCall finds the call through the bound RequestValidator method(s).
func validatorCall(fn *ssa.Function, methods ...string) []*ssa.Call {
	var out []*ssa.Call
	isBound := func(v ssa.Value) bool {
		mc, ok := v.(*ssa.MakeClosure)
		if !ok {
			return false
		}
		f := mc.Fn.(*ssa.Function)
		for _, m := range methods {
			if f.Name() == m+"$bound" && strings.Contains(f.String(), "RequestValidator") {
				return true
			}
		}
		return false
	}
	for _, b := range fn.Blocks {
		for _, ins := range b.Instrs {
			call, ok := ins.(*ssa.Call)
			if !ok {
				continue
			}
			c := call.Common()
			if c.IsInvoke() {
				for _, m := range methods {
					if c.Method.Name() == m && strings.Contains(c.Method.FullName(), "RequestValidator") {
						out = append(out, call)
					}
				}
				continue
			}
			switch v := c.Value.(type) {
			case *ssa.MakeClosure:
				if isBound(v) {
					out = append(out, call)
				}
			case *ssa.Phi:
				all := len(v.Edges) > 0
				for _, e := range v.Edges {
					if !isBound(e) {
						all = false
					}
				}
				if all {
					out = append(out, call)
				}
			}
		}
	}
	return out
}

func c04Accept(r *R) {
	fn := r.fn("C04.1", "impl", "manager", "acceptRequest")
	if fn == nil {
		return
	}
	// the validator is consulted at one call through a bound method value, or at
	// one direct call per direction; everything below is judged per path, in
	// terms of the validator call that path went through
	vcs := validatorCall(fn, "ValidatePull", "ValidatePush")
	if len(vcs) < 1 || len(vcs) > 2 {
		r.c.Stuck("C04.1", "anchor:validator-call", r.p.Pos(fn.Pos()), fmt.Sprintf("expected one call through RequestValidator.ValidatePull/ValidatePush (or one per direction) in acceptRequest, found %d", len(vcs)))
		return
	}
	isV := map[ssa.Instruction]*ssa.Call{}
	for _, c := range vcs {
		isV[c] = c
	}
	paths := r.pathsOf("C04.1", fn)
	// vOn: the validator call a path went through and its descriptor on that path
	vOn := func(pt *core.Path) (*ssa.Call, string, int) {
		var vc *ssa.Call
		n := 0
		for _, ev := range pt.Evs {
			if c, ok := isV[ev.Instr]; ok {
				vc = c
				n++
			}
		}
		if vc == nil {
			return nil, "", 0
		}
		return vc, pt.Desc(vc), n
	}
	once := true
	for _, pt := range paths {
		if _, _, n := vOn(pt); n > 1 {
			once = false
		}
	}
	r.c.Check(once, "C04.1", "validator-once", r.p.Pos(fn.Pos()), "the validator is consulted at most once per request", "a path of acceptRequest consults the validator more than once")
	for _, callee := range []string{"(*channels.Channels).CreateNew", "(*channels.Channels).Open", "(*channels.Channels).Accept",
		"(*impl.manager).recordAcceptedValidationEvents", "(*transportoptions.TransportOptions).ApplyOptions", "(network.DataTransferNetwork).Protect",
		"(*transportoptions.TransportOptions).SetOptions"} {
		r.guardedOnPaths("C04.1", fn, paths, callee, 1, func(pt *core.Path, ev core.Ev) []string {
			vc, v, _ := vOn(pt)
			if vc == nil {
				return []string{"+<validator consulted>"}
			}
			return []string{"+" + v + "#1==nil", "+" + v + "#0.Accepted"}
		})
	}
	// the validator is the one registered for the request's voucher type, and the
	// request's selector / voucher decoded without error
	sel := r.one("C04.1", fn, "(datatransfer.Request).Selector")
	tv := r.one("C04.1", fn, "(datatransfer.Request).TypedVoucher")
	pr := r.sites(fn, false, "(*registry.Registry).Processor")
	if sel != nil && tv != nil && len(pr) >= 1 {
		var vp ssa.CallInstruction
		for _, s := range pr {
			if r.dOf(s.(ssa.Instruction)).Of(core.Arg(s.Common(), -1)) == "m.validatedTypes" {
				vp = s
			}
		}
		if vp == nil {
			r.c.Bad("C04.1", "validator-registry", r.p.Pos(fn.Pos()), "acceptRequest does not look the validator up in m.validatedTypes")
		} else {
			r.argIs("C04.1", vp, 0, r.v(tv)+"#0.Type", "the type the validator is looked up by")
			for i, vc := range vcs {
				key := "validator-call-guards"
				if i > 0 {
					key += fmt.Sprintf("#%d", i+1)
				}
				r.guarded("C04.1", vc, key, "+"+r.v(vp)+"#1", "+"+r.v(sel)+"#1==nil", "+"+r.v(tv)+"#1==nil")
			}
			// the value asserted to RequestValidator is that lookup's result
			okSrc := false
			for _, b := range fn.Blocks {
				for _, ins := range b.Instrs {
					if ta, ok := ins.(*ssa.TypeAssert); ok && strings.HasSuffix(core.TypeShort(ta.AssertedType), "RequestValidator") {
						if r.d.Of(ta.X) == r.v(vp)+"#0" {
							okSrc = true
						}
					}
				}
			}
			r.c.Check(okSrc, "C04.1", "validator-source", r.p.InstrPos(vcs[0]), "validator is the registry's processor for the voucher type", "the RequestValidator used is not the processor looked up for the request's voucher type")
		}
	}
	// direction: pull ↔ ValidatePull, and the validator's arguments
	nPull, nPush := 0, 0
	np := 0
	for _, pt := range paths {
		vc, _, _ := vOn(pt)
		if vc == nil {
			continue
		}
		np++
		method := ""
		if vc.Common().IsInvoke() {
			method = vc.Common().Method.Name()
		} else {
			method = strings.TrimSuffix(pt.Desc(vc.Common().Value), "$bound")
			method = method[strings.LastIndex(method, ".")+1:]
		}
		key := fmt.Sprintf("validator-direction/path#%d", np)
		switch {
		case pt.HasBefore(vc, "+incoming.IsPull()"):
			nPull++
			r.c.Check(method == "ValidatePull", "C04.1", key, r.p.InstrPos(vc), "pull validated by ValidatePull", "a pull request is validated by "+method)
		case pt.HasBefore(vc, "-incoming.IsPull()"):
			nPush++
			r.c.Check(method == "ValidatePush", "C04.1", key, r.p.InstrPos(vc), "push validated by ValidatePush", "a push request is validated by "+method)
		default:
			r.c.Bad("C04.1", key, r.p.InstrPos(vc), "validator chosen without testing incoming.IsPull(): "+pt.Describe())
		}
	}
	r.c.Floor("C04.1", nPull, 1, "pull paths to the validator")
	r.c.Floor("C04.1", nPush, 1, "push paths to the validator")
	if tv != nil && sel != nil {
		for j, vc := range vcs {
			for i, w := range []string{"chid", "chid.Initiator", r.v(tv) + "#0.Voucher", "incoming.BaseCid()", r.v(sel) + "#0"} {
				got := r.d.Of(vc.Common().Args[i])
				key := fmt.Sprintf("validator-arg%d", i)
				if j > 0 {
					key += fmt.Sprintf("#%d", j+1)
				}
				r.c.Check(got == w, "C04.1", key, r.p.InstrPos(vc), "= "+w, fmt.Sprintf("validator argument %d is %s, expected %s", i, got, w))
			}
		}
	}
	// the function's results: the validator's result and error are what is returned on the rejecting paths
	for i, pt := range paths {
		vc, v, _ := vOn(pt)
		if pt.End != "return" || vc == nil {
			continue
		}
		if pt.Has("-"+v+"#1==nil") || pt.Has("-"+v+"#0.Accepted") {
			e := pt.RetDesc(1)
			// once the error is known to be absent, returning nil is returning it
			okE := e == v+"#1" || (e == "nil" && pt.Has("+"+v+"#1==nil"))
			r.c.Check(pt.RetDesc(0) == v+"#0" && okE, "C04.1", fmt.Sprintf("reject-returns/path#%d", i+1), r.p.Pos(fn.Pos()),
				"rejecting path returns the validator's result and error", "a rejecting path returns ("+pt.RetDesc(0)+", "+pt.RetDesc(1)+") instead of the validator's outcome")
		}
	}
	// receiveNewRequest feeds exactly that outcome into the reply and the transport signal
	rn := r.fn("C04.1", "impl", "manager", "receiveNewRequest")
	if rn != nil {
		ar := r.one("C04.1", rn, "(*impl.manager).acceptRequest")
		vr := r.one("C04.1", rn, "dyn:message.ValidationResultResponse")
		re := r.one("C04.1", rn, "(*impl.manager).requestError")
		if ar != nil && vr != nil && re != nil {
			a := r.v(ar)
			r.argIs("C04.1", vr, 0, "NewMessage", "reply message type")
			r.argIs("C04.1", vr, 1, "incoming.TransferID()", "reply transfer id")
			r.argIs("C04.1", vr, 2, a+"#0", "validation result in the reply")
			r.argIs("C04.1", vr, 3, a+"#1", "validation error in the reply")
			r.argIs("C04.1", vr, 4, a+"#0.ForcePause", "pause decision in the reply")
			r.argIs("C04.1", re, 0, a+"#0", "validation result for the transport signal")
			r.argIs("C04.1", re, 1, a+"#1", "validation error for the transport signal")
			r.argIs("C04.1", re, 2, a+"#0.ForcePause", "pause decision for the transport signal")
		}
	}
}

// c04Response: decision table of message1_1.ValidationResultResponse (also C12.4).
func c04Response(r *R, rule string) {
	fn := r.fn(rule, "message/message1_1prime", "", "ValidationResultResponse")
	if fn == nil {
		return
	}
	n := 0
	for _, pt := range r.pathsOf(rule, fn) {
		if pt.End != "return" {
			continue
		}
		n++
		flds, vals, ok := retFields(pt, 0)
		key := fmt.Sprintf("path#%d", n)
		if !ok {
			r.c.Stuck(rule, key, r.p.Pos(fn.Pos()), "the response is not built as a struct literal")
			continue
		}
		site := r.p.Pos(fn.Pos())
		// RequestAccepted must equal (validationErr == nil ∧ validationResult.Accepted) for every
		// assignment of the two conditions that is consistent with the path
		{
			aE, aA := "validationErr==nil", "validationResult.Accepted"
			okAll, detail := true, ""
			for bits := 0; bits < 4; bits++ {
				asg := map[string]bool{aE: bits&1 != 0, aA: bits&2 != 0}
				cons := true
				for _, a := range pt.Atoms {
					if v, ok := asg[a.S]; ok && v != a.Pol {
						cons = false
					}
				}
				if !cons {
					continue
				}
				got, known := false, false
				switch flds["RequestAccepted"] {
				case "true":
					got, known = true, true
				case "false":
					got, known = false, true
				default:
					if v := vals["RequestAccepted"]; v != nil {
						at := pt.D.NormAtom(v, true)
						if x, ok := asg[at.S]; ok {
							got, known = x == at.Pol, true
						}
					}
				}
				want := asg[aE] && asg[aA]
				if !known || got != want {
					okAll = false
					detail = fmt.Sprintf("with validationErr==nil=%v and Accepted=%v the reply says Accepted=%s (%v), the property requires %v", asg[aE], asg[aA], flds["RequestAccepted"], got, want)
				}
			}
			r.c.Check(okAll, rule, key+"/Accepted", site, "Accepted = (no validation error ∧ validator accepted)", detail)
		}
		r.c.Check(flds["Paused"] == "paused", rule, key+"/Paused", site, "Paused = paused", "Paused is "+flds["Paused"])
		r.c.Check(flds["TransferId"] == "id", rule, key+"/TransferId", site, "TransferId = id", "TransferId is "+flds["TransferId"])
		r.c.Check(flds["MessageType"] == "messageType", rule, key+"/MessageType", site, "MessageType = messageType", "MessageType is "+flds["MessageType"])
		wantV, wantT := "message/message1_1prime.emptyTypedVoucher.Voucher", "message/message1_1prime.emptyTypedVoucher.Type"
		if pt.Has("-validationResult.VoucherResult==nil") {
			wantV, wantT = "validationResult.VoucherResult.Voucher", "validationResult.VoucherResult.Type"
		} else if !pt.Has("+validationResult.VoucherResult==nil") {
			wantV = "<undetermined>"
		}
		r.c.Check(flds["VoucherResultPtr"] == wantV && flds["VoucherTypeIdentifier"] == wantT, rule, key+"/VoucherResult", site, "carries the validator's voucher result (or none)",
			fmt.Sprintf("voucher result in the reply is (%s, %s), expected (%s, %s)", flds["VoucherResultPtr"], flds["VoucherTypeIdentifier"], wantV, wantT))
	}
	r.c.Floor(rule, n, 4, "paths through ValidationResultResponse")
}

func c04RequestError(r *R) {
	fn := r.fn("C04.4", "impl", "manager", "requestError")
	r.table("C04.4", fn, 0, []string{"resultErr==nil", "result.Accepted", "stayPaused"}, func(a map[string]bool) string {
		switch {
		case !a["resultErr==nil"]:
			return "resultErr"
		case !a["result.Accepted"]:
			return "ErrRejected"
		case a["stayPaused"]:
			return "ErrPause"
		}
		return "nil"
	})
}

func c04Receiver(r *R) {
	fn := r.fn("C04.5", "impl", "receiver", "receiveRequest")
	if fn == nil {
		return
	}
	orr := r.one("C04.5", fn, "(*impl.manager).OnRequestReceived")
	if orr == nil {
		return
	}
	resp, rerr := r.v(orr)+"#0", r.v(orr)+"#1"
	r.guardedCalls("C04.5", fn, false, "(datatransfer.Transport).OpenChannel", 1, "+"+resp+".Accepted()", "-incoming.IsPull()", "-"+resp+"==nil")
	nRej, nPause := 0, 0
	for _, pt := range r.pathsOf("C04.5", fn) {
		if pt.End != "return" {
			continue
		}
		if pt.Has("-ErrPause=="+rerr) && pt.Has("-"+rerr+"==nil") && !pt.Has("+ErrResume=="+rerr) {
			nRej++
			key := fmt.Sprintf("reject-path#%d", nRej)
			r.c.Check(pt.Count(r.p.Is("(datatransfer.Transport).CloseChannel")) == 1 && pt.RetDesc(0) == rerr, "C04.5", key, r.p.Pos(fn.Pos()),
				"a failed/rejected request closes the transport channel and reports the error", "a path on which request processing failed does not close the transport channel exactly once and return the error: "+pt.Describe())
		}
		if pt.Has("+ErrPause==" + rerr) {
			nPause++
			r.c.Check(pt.Count(r.p.Is("(datatransfer.PauseableTransport).PauseChannel")) == 1 && pt.Count(r.p.Is("(datatransfer.Transport).CloseChannel")) == 0, "C04.5", fmt.Sprintf("pause-path#%d", nPause), r.p.Pos(fn.Pos()),
				"pause signal pauses the transport", "ErrPause path does not pause the transport: "+pt.Describe())
		}
	}
	// the transport channel is closed only after establishing that the outcome is not the pause signal
	nCl := 0
	for _, pt := range r.pathsOf("C04.5", fn) {
		if pt.Count(r.p.Is("(datatransfer.Transport).CloseChannel")) == 0 {
			continue
		}
		nCl++
		r.c.Check(pt.Has("-ErrPause=="+rerr) && pt.Has("-"+rerr+"==nil"), "C04.5", fmt.Sprintf("close-not-pause#%d", nCl), r.p.Pos(fn.Pos()), "closed only for a real error (not the pause signal)",
			"the transport channel is closed on a path that did not rule out the pause signal: a 'stay paused' outcome closes the transfer instead of pausing it: "+pt.Describe())
	}
	r.c.Floor("C04.5", nRej, 1, "rejecting paths reaching the final error test in receiveRequest")
	r.c.Floor("C04.5", nPause, 1, "pause paths in receiveRequest")
	// same for responses
	fr := r.fn("C04.5", "impl", "receiver", "receiveResponse")
	if fr != nil {
		on := r.one("C04.5", fr, "(*impl.manager).OnResponseReceived")
		if on != nil {
			e := r.v(on)
			n := 0
			for _, pt := range r.pathsOf("C04.5", fr) {
				if pt.End == "return" && pt.Has("-ErrPause=="+e) && pt.Has("-"+e+"==nil") {
					n++
					r.c.Check(pt.Count(r.p.Is("(datatransfer.Transport).CloseChannel")) == 1 && pt.RetDesc(0) == e, "C04.5", fmt.Sprintf("response-reject-path#%d", n), r.p.Pos(fr.Pos()),
						"a failed response closes the transport channel", "error path of receiveResponse does not close the transport channel: "+pt.Describe())
				}
			}
			r.c.Floor("C04.5", n, 1, "rejecting paths in receiveResponse")
		}
	}
}

func c04Restart(r *R) {
	fn := r.fn("C04.6", "impl", "manager", "restartRequest")
	if fn == nil {
		return
	}
	vrr := r.one("C04.6", fn, "(*impl.manager).validateRestartRequest")
	vr := r.one("C04.6", fn, "(*impl.manager).validateRestart")
	gb := r.one("C04.6", fn, "(*channels.Channels).GetByID")
	if vrr == nil || vr == nil || gb == nil {
		return
	}
	r.argIs("C04.6", vr, 0, r.v(gb)+"#0", "the channel that is re-validated")
	r.argIs("C04.6", gb, 1, "chid", "the channel read for re-validation")
	v := r.v(vr)
	g := []string{"+" + r.v(vrr) + "==nil", "+" + v + "#1==nil", "+" + v + "#0.Accepted"}
	for _, callee := range []string{"(*channels.Channels).Restart", "(*impl.manager).recordAcceptedValidationEvents", "(*transportoptions.TransportOptions).ApplyOptions",
		"(network.DataTransferNetwork).Protect", "(*transportoptions.TransportOptions).SetOptions"} {
		r.guardedCalls("C04.6", fn, false, callee, 1, g...)
	}
	r.guarded("C04.6", vr, "revalidation-after-request-check", "+"+r.v(vrr)+"==nil")
	nRej := 0
	for _, pt := range r.pathsOf("C04.6", fn) {
		if pt.End != "return" || !pt.Has("+"+v+"#1==nil") || !pt.Has("-"+v+"#0.Accepted") {
			continue
		}
		nRej++
		e, ok := core.Ev{}, false
		for _, x := range pt.Evs {
			if r.p.CalleeName(x.C) == "(*impl.manager).recordRejectedValidationEvents" {
				e, ok = x, true
			}
		}
		good := ok && pt.ArgDesc(e, 0) == "chid" && pt.ArgDesc(e, 1) == v+"#0" && pt.Count(r.p.Is("(*channels.Channels).Restart")) == 0 && pt.RetDesc(1) == v+"#0" && pt.RetDesc(2) == r.d.Of(e.Instr.(ssa.Value))
		r.c.Check(good, "C04.6", fmt.Sprintf("rejected-restart-path#%d", nRej), r.p.Pos(fn.Pos()), "a rejected restart fails the channel and reports the rejection", "a rejected restart does not record the rejection (Error(ErrRejected)) and return its outcome: "+pt.Describe())
	}
	r.c.Floor("C04.6", nRej, 1, "rejected-restart paths")
	// recordRejectedValidationEvents: fails the channel with ErrRejected on every non-abort path
	rr := r.fn("C04.6", "impl", "manager", "recordRejectedValidationEvents")
	if rr != nil {
		n := 0
		for _, pt := range r.pathsOf("C04.6", rr) {
			if pt.End != "return" {
				continue
			}
			abort := false
			for _, a := range pt.Atoms {
				if !a.Pol && strings.HasPrefix(a.S, "m.channels.NewVoucherResult(") && strings.HasSuffix(a.S, "==nil") {
					abort = true
				}
			}
			if abort {
				continue
			}
			n++
			idx := pt.Index(r.p.Is("(*channels.Channels).Error"))
			good := idx >= 0 && pt.ArgDesc(pt.Evs[idx], 0) == "chid" && pt.ArgDesc(pt.Evs[idx], 1) == "ErrRejected" && pt.RetDesc(0) == r.d.Of(pt.Evs[idx].Instr.(ssa.Value))
			r.c.Check(good, "C04.6", fmt.Sprintf("recordRejected/path#%d", n), r.p.Pos(rr.Pos()), "channel failed with ErrRejected", "recordRejectedValidationEvents has a path that does not fail the channel with ErrRejected: "+pt.Describe())
		}
		r.c.Floor("C04.6", n, 2, "non-abort paths in recordRejectedValidationEvents")
	}
	// receiveRestartRequest: reply built from the restart outcome
	rq := r.fn("C04.6", "impl", "manager", "receiveRestartRequest")
	if rq != nil {
		rs := r.one("C04.6", rq, "(*impl.manager).restartRequest")
		vm := r.one("C04.6", rq, "dyn:message.ValidationResultResponse")
		if rs != nil && vm != nil {
			a := r.v(rs)
			r.argIs("C04.6", vm, 0, "RestartMessage", "reply message type")
			r.argIs("C04.6", vm, 2, a+"#1", "validation result in the restart reply")
			r.argIs("C04.6", vm, 3, a+"#2", "validation error in the restart reply")
			r.argIs("C04.6", vm, 4, a+"#0", "pause decision in the restart reply")
		}
	}
}

func c04Update(r *R) {
	fn := r.fn("C04.7", "impl", "manager", "handleTransportUpdate")
	if fn != nil {
		lrp := "result.LeaveRequestPaused(chst)"
		r.guardedCalls("C04.7", fn, false, "(datatransfer.PauseableTransport).ResumeChannel", 1, "+resultErr==nil", "+result.Accepted", "-"+lrp)
		r.guardedCalls("C04.7", fn, false, "(datatransfer.PauseableTransport).PauseChannel", 1, "+resultErr==nil", "+result.Accepted", "+"+lrp)
		// the whole decision: which transport action / message follows from the outcome
		fin := "chst.Status().InFinalization()"
		r.effectTable("C04.7", fn, []string{"resultErr==nil", "result.Accepted", lrp, "chst.ResponderPaused()", fin, "response==nil"},
			map[string]string{"(datatransfer.PauseableTransport).ResumeChannel": "resume", "(datatransfer.PauseableTransport).PauseChannel": "pause",
				"(datatransfer.Transport).CloseChannel": "close", "(network.DataTransferNetwork).SendMessage": "send"},
			[]string{"m.dataTransferNetwork.SendMessage("},
			func(a map[string]bool) []string {
				accept := a["resultErr==nil"] && a["result.Accepted"]
				if accept && !a[lrp] && a["chst.ResponderPaused()"] && !a[fin] {
					return []string{"resume"} // the response travels with the resume
				}
				var out []string
				if !a["response==nil"] {
					out = append(out, "send")
				}
				if !accept {
					return append(out, "close")
				}
				if a[lrp] && !a["chst.ResponderPaused()"] && !a[fin] {
					out = append(out, "pause")
				}
				return out
			})
		nRej := 0
		for _, pt := range r.pathsOf("C04.7", fn) {
			if pt.End != "return" {
				continue
			}
			reject := pt.Has("-resultErr==nil") || pt.Has("-result.Accepted")
			abort := false
			for _, a := range pt.Atoms {
				if !a.Pol && strings.HasPrefix(a.S, "m.dataTransferNetwork.SendMessage(") && strings.HasSuffix(a.S, "==nil") {
					abort = true
				}
			}
			nClose := pt.Count(r.p.Is("(datatransfer.Transport).CloseChannel"))
			nPR := pt.Count(r.p.Is("(datatransfer.PauseableTransport).ResumeChannel", "(datatransfer.PauseableTransport).PauseChannel"))
			if reject {
				nRej++
				key := fmt.Sprintf("reject-path#%d", nRej)
				if abort {
					r.c.Check(nPR == 0, "C04.7", key, r.p.Pos(fn.Pos()), "no resume/pause on a rejecting path", "rejecting path resumes or pauses the transport: "+pt.Describe())
				} else {
					r.c.Check(nClose == 1 && nPR == 0 && pt.RetDesc(0) == "resultErr", "C04.7", key, r.p.Pos(fn.Pos()), "rejection closes the transport channel", "a rejecting validation update does not close the transport channel (or resumes/pauses it): "+pt.Describe())
				}
			} else if pt.Has("+resultErr==nil") && pt.Has("+result.Accepted") {
				r.c.Check(nClose == 0, "C04.7", fmt.Sprintf("accept-path#%d", len(r.c.Obs)), r.p.Pos(fn.Pos()), "accepting update does not close", "an accepting validation update closes the transport channel: "+pt.Describe())
			}
		}
		r.c.Floor("C04.7", nRej, 2, "rejecting paths in handleTransportUpdate")
	}
	pv := r.fn("C04.7", "impl", "manager", "processValidationUpdate")
	if pv != nil {
		r.guardedCalls("C04.7", pv, false, "(*impl.manager).recordRejectedValidationEvents", 1, "-result.Accepted")
		r.guardedCalls("C04.7", pv, false, "(*impl.manager).recordAcceptedValidationEvents", 1, "+result.Accepted")
		if vm := r.one("C04.7", pv, "dyn:message.ValidationResultResponse"); vm != nil {
			r.argIs("C04.7", vm, 2, "result", "validation result in the update reply")
			if gb := r.one("C04.7", pv, "(*channels.Channels).GetByID"); gb != nil {
				r.argIs("C04.7", vm, 4, "result.LeaveRequestPaused("+r.v(gb)+"#0)", "pause decision in the update reply")
			}
		}
	}
	uv := r.fn("C04.7", "impl", "manager", "updateValidationStatus")
	if uv != nil {
		pvc := r.one("C04.7", uv, "(*impl.manager).processValidationUpdate")
		ht := r.one("C04.7", uv, "(*impl.manager).handleTransportUpdate")
		if pvc != nil && ht != nil {
			a := r.v(pvc)
			r.argIs("C04.7", ht, 1, a+"#0", "channel state handed to the transport update")
			r.argIs("C04.7", ht, 2, a+"#1", "reply handed to the transport update")
			r.argIs("C04.7", ht, 3, "result", "validation result handed to the transport update")
			r.argIs("C04.7", ht, 4, a+"#2", "validation error handed to the transport update")
		}
	}
}

func c04Record(r *R) {
	fn := r.fn("C04.8", "impl", "manager", "recordAcceptedValidationEvents")
	if fn == nil {
		return
	}
	for callee, want := range map[string]string{"(*channels.Channels).SetDataLimit": "result.DataLimit", "(*channels.Channels).SetRequiresFinalization": "result.RequiresFinalization",
		"(*channels.Channels).NewVoucherResult": "*result.VoucherResult"} {
		s := r.one("C04.8", fn, callee)
		if s != nil {
			r.argIs("C04.8", s, 1, want, "the value recorded")
			r.argIs("C04.8", s, 0, "chst.ChannelID()", "the channel it is recorded on")
		}
	}
	lrp := "result.LeaveRequestPaused(chst)"
	r.guardedCalls("C04.8", fn, false, "(*channels.Channels).PauseResponder", 1, "+"+lrp)
	r.guardedCalls("C04.8", fn, false, "(*channels.Channels).ResumeResponder", 1, "-"+lrp)
	// completeness: a path that reports success has brought the channel in line with
	// the validator's outcome — each item is either recorded or already equal
	n := 0
	for _, pt := range r.pathsOf("C04.8", fn) {
		if pt.End != "return" || pt.RetDesc(0) != "nil" {
			continue
		}
		n++
		has := func(callee string) bool { return pt.Count(r.p.Is(callee)) > 0 }
		var missing []string
		if !has("(*channels.Channels).SetDataLimit") && !pt.Has("+chst.DataLimit()==result.DataLimit") {
			missing = append(missing, "data limit neither recorded nor equal to the recorded one")
		}
		if !has("(*channels.Channels).SetRequiresFinalization") && !pt.Has("+chst.RequiresFinalization()==result.RequiresFinalization") {
			missing = append(missing, "finalization requirement neither recorded nor equal to the recorded one")
		}
		if !has("(*channels.Channels).NewVoucherResult") && !pt.Has("+result.VoucherResult==nil") && !pt.Has("+result.VoucherResult.Voucher==nil") {
			missing = append(missing, "voucher result present but not recorded")
		}
		switch {
		case pt.Has("+" + lrp):
			if !has("(*channels.Channels).PauseResponder") && !pt.Has("+chst.ResponderPaused()") {
				missing = append(missing, "validator wants the request paused but the responder is neither paused nor already paused")
			}
		case pt.Has("-" + lrp):
			if !has("(*channels.Channels).ResumeResponder") && !pt.Has("-chst.ResponderPaused()") {
				missing = append(missing, "validator does not want the request paused but a paused responder is not resumed")
			}
		default:
			missing = append(missing, "pause decision of the validator not consulted")
		}
		if len(missing) > 0 || n <= 1 {
			r.c.Check(len(missing) == 0, "C04.8", fmt.Sprintf("recorded-in-full/path#%d", n), r.p.Pos(fn.Pos()), "every item of the validator's outcome is recorded or already equal", strings.Join(missing, "; ")+": "+pt.Describe())
		}
	}
	r.c.Floor("C04.8", n, 4, "successful paths of recordAcceptedValidationEvents")
}

// C04.9: the transport validates the graphsync request only when the manager
// accepted (nil or ErrPause), and terminates it otherwise.
func c04Transport(r *R) {
	fn := r.fn("C04.9", "transport/graphsync", "Transport", "gsReqRecdHook")
	if fn == nil {
		return
	}
	validate := r.p.Is("(github.com/ipfs/go-graphsync.IncomingRequestHookActions).ValidateRequest")
	terminate := r.p.Is("(github.com/ipfs/go-graphsync.IncomingRequestHookActions).TerminateWithError")
	nV, nT := 0, 0
	for _, pt := range r.pathsOf("C04.9", fn) {
		if pt.End != "return" {
			continue
		}
		e := ""
		for _, ev := range pt.Evs {
			switch r.p.CalleeName(ev.C) {
			case "(datatransfer.EventsHandler).OnRequestReceived":
				e = pt.Desc(ev.Instr.(ssa.Value)) + "#1"
			case "(datatransfer.EventsHandler).OnResponseReceived":
				e = pt.Desc(ev.Instr.(ssa.Value))
			}
		}
		if e == "" {
			r.c.Check(pt.Count(validate) == 0, "C04.9", fmt.Sprintf("no-manager-path#%d", len(r.c.Obs)), r.p.Pos(fn.Pos()), "not validated without consulting the manager", "graphsync request validated without consulting the manager: "+pt.Describe())
			continue
		}
		rejected := pt.Has("-"+e+"==nil") && pt.Has("-ErrPause=="+e)
		recorded := pt.Count(r.p.Is("(*transport/graphsync.dtChannel).gsDataRequestRcvd"))
		if rejected {
			nT++
			r.c.Check(pt.Count(validate) == 0 && pt.Count(terminate) >= 1, "C04.9", fmt.Sprintf("reject-path#%d", nT), r.p.Pos(fn.Pos()), "rejected request terminated, not validated", "a rejected incoming graphsync request is validated or not terminated: "+pt.Describe())
			r.c.Check(recorded == 0, "C04.9", fmt.Sprintf("reject-path#%d/not-recorded", nT), r.p.Pos(fn.Pos()), "a rejected request is not recorded against the channel", "a rejected incoming graphsync request is recorded as the channel's request (mapping and current request id): its later callbacks become channel events and pause/resume/close target it: "+pt.Describe())
		}
		if pt.Count(validate) > 0 {
			nV++
			r.c.Check(pt.Has("+"+e+"==nil") || pt.Has("+ErrPause=="+e), "C04.9", fmt.Sprintf("validate-path#%d", nV), r.p.Pos(fn.Pos()), "validated only after the manager accepted", "graphsync request validated on a path where the manager's outcome was not established to be success or pause: "+pt.Describe())
		}
	}
	r.c.Floor("C04.9", nV, 2, "validating paths in gsReqRecdHook")
	r.c.Floor("C04.9", nT, 2, "rejecting paths in gsReqRecdHook")
}
