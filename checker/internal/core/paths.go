package core

import (
	"fmt"
	"go/constant"
	"go/token"
	"go/types"
	"sort"
	"strings"

	"golang.org/x/tools/go/ssa"
)

// Ev is a call event on a path.
type Ev struct {
	Instr ssa.Instruction
	C     *ssa.CallCommon
	Kind  string // "call", "defer" (run at function exit), "go"
	fr    *frame
}

// frame is one activation on a path: the function being walked and, for a
// helper that is walked on behalf of its caller (see inlinable), how its
// parameters read in the caller's terms.
type frame struct {
	fn       *ssa.Function
	pred     map[*ssa.BasicBlock]*ssa.BasicBlock
	blocks   []*ssa.BasicBlock
	onPath   map[*ssa.BasicBlock]bool
	subst    map[*ssa.Parameter]string
	callVals map[*ssa.Call][]string
	// the same two in identity terms (pruning keys: two calls are two values)
	substI    map[*ssa.Parameter]string
	callValsI map[*ssa.Call][]string
	defers    []Ev
	parent    *frame
	depth     int
}

// Path is one acyclic control-flow path through a function (DESIGN E3/E6):
// the blocks, the branch atoms assumed along it (phis resolved along the
// path), the calls in execution order and how it ends. Calls to helper
// functions that did not exist on the reference tree are walked through
// (their blocks, atoms and calls become part of the path, in the caller's
// terms), so extracting part of a function into a new helper does not change
// what the rules see.
type Path struct {
	Fn     *ssa.Function
	Blocks []*ssa.BasicBlock
	Atoms  []Atom
	AtomAt []int // index into Blocks of the branching block of each atom
	// execution order of calls/stores/branches on the path (helper frames in
	// place), and the position at which each atom was assumed
	order    []ssa.Instruction
	atomStep []int
	stepOf   map[ssa.Instruction]int
	Evs      []Ev
	Ret      *ssa.Return // nil when the path ends in a panic or loops back
	End      string      // "return", "panic", "loop"
	D        *D
	frames   map[*ssa.Function]*frame
	top      *frame
	p        *Prog
}

// MaxPaths bounds the enumeration; exceeding it makes the result incomplete.
const MaxPaths = 60000

// maxInlineDepth bounds walking into new helpers.
const maxInlineDepth = 3

func (p *Prog) frameD(fr *frame, ident bool) *D {
	d := &D{P: p, CallIdentity: ident}
	pred := fr.pred
	d.PhiVal = func(ph *ssa.Phi) ssa.Value {
		pb, ok := pred[ph.Block()]
		if !ok {
			return nil
		}
		for i, q := range ph.Block().Preds {
			if q == pb {
				return ph.Edges[i]
			}
		}
		return nil
	}
	d.LoadVal = func(u *ssa.UnOp) ssa.Value {
		a, ok := u.X.(*ssa.Alloc)
		if !ok {
			return nil
		}
		var last ssa.Value
		for _, b := range fr.blocks {
			for _, ins := range b.Instrs {
				if ins == u {
					return last
				}
				if s, ok := ins.(*ssa.Store); ok && s.Addr == a {
					last = s.Val
				}
			}
		}
		return nil
	}
	d.AllocAt = func(a *ssa.Alloc, at ssa.Instruction) ssa.Value {
		var last ssa.Value
		for _, b := range fr.blocks {
			for _, ins := range b.Instrs {
				if ins == at {
					return last
				}
				if s, ok := ins.(*ssa.Store); ok {
					if s.Addr == a {
						last = s.Val
					} else if rootAlloc(s.Addr) == a {
						last = nil // a field was written after the whole value
					}
				}
			}
		}
		return nil
	}
	d.Subst = fr.subst
	d.CallVal = func(c *ssa.Call) []string { return fr.callVals[c] }
	if ident {
		d.Subst = fr.substI
		d.CallVal = func(c *ssa.Call) []string { return fr.callValsI[c] }
	}
	return d
}

// inlinable: a helper that did not exist on the reference tree, defined in
// production code, called statically.
func (p *Prog) inlinable(c *ssa.CallCommon) *ssa.Function {
	h := c.StaticCallee()
	if h == nil || len(h.Blocks) == 0 || h.Parent() != nil || !p.InProd(h) {
		return nil
	}
	if !IsNewFunc(h) && !p.ForceInline[h] {
		return nil
	}
	return h
}

func copyFrame(fr *frame) *frame {
	if fr == nil {
		return nil
	}
	n := &frame{fn: fr.fn, pred: map[*ssa.BasicBlock]*ssa.BasicBlock{}, blocks: append([]*ssa.BasicBlock{}, fr.blocks...),
		subst: fr.subst, substI: fr.substI, callVals: map[*ssa.Call][]string{}, callValsI: map[*ssa.Call][]string{}, depth: fr.depth}
	for k, v := range fr.pred {
		n.pred[k] = v
	}
	for k, v := range fr.callVals {
		n.callVals[k] = v
	}
	for k, v := range fr.callValsI {
		n.callValsI[k] = v
	}
	return n
}

// Paths enumerates the acyclic paths of fn from its entry block. A branch is
// not taken when it contradicts an atom already assumed on the path
// (atom-consistent paths); conditions that are phis of constants are resolved
// along the path. complete is false when the bound was hit.
func (p *Prog) Paths(fn *ssa.Function) (paths []*Path, complete bool) {
	if len(fn.Blocks) == 0 {
		return nil, true
	}
	complete = true
	type state struct {
		blocks []*ssa.BasicBlock
		atoms  []Atom
		atomAt []int
		keys   map[string]bool // identity keys → polarity
		evs    []Ev
		// execution order of the calls, stores and branches walked so far, and the
		// position in it at which each atom was assumed
		order    []ssa.Instruction
		atomStep []int
		// snapshots of finished helper frames, for descriptors of their values
		done map[*ssa.Function]*frame
	}
	st := &state{keys: map[string]bool{}, done: map[*ssa.Function]*frame{}}
	top := &frame{fn: fn, pred: map[*ssa.BasicBlock]*ssa.BasicBlock{}, onPath: map[*ssa.BasicBlock]bool{}, callVals: map[*ssa.Call][]string{}, callValsI: map[*ssa.Call][]string{}}

	finish := func(end string, ret *ssa.Return) {
		if len(paths) >= MaxPaths {
			complete = false
			return
		}
		pt := &Path{Fn: fn, Blocks: append([]*ssa.BasicBlock{}, st.blocks...), Atoms: append([]Atom{}, st.atoms...), AtomAt: append([]int{}, st.atomAt...),
			Evs: append([]Ev{}, st.evs...), Ret: ret, End: end, p: p, frames: map[*ssa.Function]*frame{},
			order: append([]ssa.Instruction{}, st.order...), atomStep: append([]int{}, st.atomStep...)}
		pt.top = copyFrame(top)
		pt.frames[fn] = pt.top
		for f, fr := range st.done {
			pt.frames[f] = fr
		}
		// events keep pointing at live frames: re-point them at the snapshots
		for i := range pt.Evs {
			if fr := pt.Evs[i].fr; fr != nil {
				if snap, ok := pt.frames[fr.fn]; ok {
					pt.Evs[i].fr = snap
				}
			}
		}
		pt.D = p.frameD(pt.top, false)
		paths = append(paths, pt)
	}

	// walk continues fr at instruction idx of block b; k is called when fr
	// returns (nil for the top frame).
	var walk func(fr *frame, b *ssa.BasicBlock, idx int, k func(ret *ssa.Return))
	enter := func(fr *frame, b *ssa.BasicBlock, from *ssa.BasicBlock, k func(ret *ssa.Return)) {
		if !complete {
			return
		}
		if fr.onPath[b] {
			finish("loop", nil)
			return
		}
		oldPred, hadPred := fr.pred[b]
		if from != nil {
			fr.pred[b] = from
		}
		fr.onPath[b] = true
		fr.blocks = append(fr.blocks, b)
		st.blocks = append(st.blocks, b)
		walk(fr, b, 0, k)
		st.blocks = st.blocks[:len(st.blocks)-1]
		fr.blocks = fr.blocks[:len(fr.blocks)-1]
		fr.onPath[b] = false
		if from != nil {
			if hadPred {
				fr.pred[b] = oldPred
			} else {
				delete(fr.pred, b)
			}
		}
	}
	walk = func(fr *frame, b *ssa.BasicBlock, idx int, k func(ret *ssa.Return)) {
		if !complete {
			return
		}
		nEvs, nDef, nOrd := len(st.evs), len(fr.defers), len(st.order)
		defer func() {
			st.evs = st.evs[:nEvs]
			fr.defers = fr.defers[:nDef]
			st.order = st.order[:nOrd]
		}()
		for i := idx; i < len(b.Instrs); i++ {
			ins := b.Instrs[i]
			switch ins.(type) {
			case *ssa.Call, *ssa.Go, *ssa.Defer, *ssa.Store, *ssa.If, *ssa.MapUpdate, *ssa.Return:
				st.order = append(st.order, ins)
			}
			switch x := ins.(type) {
			case *ssa.Call:
				st.evs = append(st.evs, Ev{x, x.Common(), "call", fr})
				if h := p.inlinable(x.Common()); h != nil && fr.depth < maxInlineDepth && !onStack(fr, h) {
					// walk through the new helper in the caller's terms
					d, dI := p.frameD(fr, false), p.frameD(fr, true)
					nf := &frame{fn: h, pred: map[*ssa.BasicBlock]*ssa.BasicBlock{}, onPath: map[*ssa.BasicBlock]bool{}, callVals: map[*ssa.Call][]string{}, callValsI: map[*ssa.Call][]string{},
						subst: map[*ssa.Parameter]string{}, substI: map[*ssa.Parameter]string{}, parent: fr, depth: fr.depth + 1}
					for j, q := range h.Params {
						if j < len(x.Common().Args) {
							nf.subst[q] = d.Of(x.Common().Args[j])
							nf.substI[q] = dI.Of(x.Common().Args[j])
						}
					}
					call, blk, next := x, b, i+1
					enter(nf, h.Blocks[0], nil, func(ret *ssa.Return) {
						// helper returned: its results, in the caller's terms
						var vals, valsI []string
						if ret != nil {
							hd, hdI := p.frameD(nf, false), p.frameD(nf, true)
							for _, rv := range ret.Results {
								vals = append(vals, hd.Of(rv))
								valsI = append(valsI, hdI.Of(rv))
							}
						}
						old, had := fr.callVals[call]
						fr.callVals[call] = vals
						oldI, hadI := fr.callValsI[call]
						fr.callValsI[call] = valsI
						oldDone, hadDone := st.done[h]
						st.done[h] = copyFrame(nf)
						walk(fr, blk, next, k)
						if hadDone {
							st.done[h] = oldDone
						} else {
							delete(st.done, h)
						}
						if had {
							fr.callVals[call] = old
						} else {
							delete(fr.callVals, call)
						}
						if hadI {
							fr.callValsI[call] = oldI
						} else {
							delete(fr.callValsI, call)
						}
					})
					return
				}
			case *ssa.Go:
				st.evs = append(st.evs, Ev{x, x.Common(), "go", fr})
			case *ssa.Defer:
				fr.defers = append(fr.defers, Ev{x, x.Common(), "defer", fr})
			case *ssa.RunDefers:
				for j := len(fr.defers) - 1; j >= 0; j-- {
					st.evs = append(st.evs, fr.defers[j])
				}
			case *ssa.Return:
				if k != nil {
					k(x)
				} else {
					finish("return", x)
				}
				return
			case *ssa.Panic:
				finish("panic", nil)
				return
			case *ssa.Jump:
				enter(fr, b.Succs[0], b, k)
				return
			case *ssa.If:
				for si, succ := range b.Succs {
					pol := si == 0
					dI := p.frameD(fr, true)
					if val, known := constCond(x.Cond, dI.PhiVal); known && val != pol {
						continue // comparison of two constants on this path: other branch infeasible
					}
					key := dI.NormAtom(x.Cond, pol)
					if key.S == "true" || key.S == "false" {
						if ((key.S == "true") == key.Pol) == false {
							continue
						}
						// a constant condition (a short-circuit phi resolved on this path) says nothing
						enter(fr, succ, b, k)
						continue
					}
					if prev, ok := st.keys[key.S]; ok && prev != key.Pol {
						continue // contradicts an atom assumed earlier on this path
					}
					_, had := st.keys[key.S]
					st.keys[key.S] = key.Pol
					disp := p.frameD(fr, false).NormAtom(x.Cond, pol)
					st.atoms = append(st.atoms, disp)
					st.atomAt = append(st.atomAt, len(st.blocks)-1)
					st.atomStep = append(st.atomStep, len(st.order))
					enter(fr, succ, b, k)
					st.atoms = st.atoms[:len(st.atoms)-1]
					st.atomAt = st.atomAt[:len(st.atomAt)-1]
					st.atomStep = st.atomStep[:len(st.atomStep)-1]
					if !had {
						delete(st.keys, key.S)
					}
				}
				return
			}
		}
		for _, succ := range b.Succs {
			enter(fr, succ, b, k)
		}
	}
	enter(top, fn.Blocks[0], nil, nil)
	return paths, complete
}

func onStack(fr *frame, h *ssa.Function) bool {
	for f := fr; f != nil; f = f.parent {
		if f.fn == h {
			return true
		}
	}
	return false
}

// dFor returns the descriptor context of the frame that owns v.
func (pt *Path) dFor(v ssa.Value) *D {
	var fn *ssa.Function
	switch x := v.(type) {
	case ssa.Instruction:
		fn = x.Parent()
	case *ssa.Parameter:
		fn = x.Parent()
	case *ssa.FreeVar:
		fn = x.Parent()
	}
	if fn != nil && fn != pt.Fn {
		if fr, ok := pt.frames[fn]; ok {
			return pt.p.frameD(fr, false)
		}
	}
	return pt.D
}

// Has reports whether the path assumed the atom (given as "+s" or "-s").
func (pt *Path) Has(atom string) bool { return HasAtom(pt.Atoms, ParseAtom(atom)) }

// HasAny reports whether the path assumed one of the atoms.
func (pt *Path) HasAny(atoms ...string) bool {
	for _, a := range atoms {
		if pt.Has(a) {
			return true
		}
	}
	return false
}

// HasAll reports whether the path assumed all of the atoms.
func (pt *Path) HasAll(atoms ...string) bool {
	for _, a := range atoms {
		if !pt.Has(a) {
			return false
		}
	}
	return true
}

// RetDesc returns the descriptor of the i-th returned value on this path.
func (pt *Path) RetDesc(i int) string {
	if pt.Ret == nil || i >= len(pt.Ret.Results) {
		return "<none>"
	}
	return pt.Desc(pt.Ret.Results[i])
}

// Desc is the descriptor of v on this path: phis are resolved along the path
// and a load of a multi-store local (a named result spilled because of a
// defer) is resolved to the last value stored to it on the path.
func (pt *Path) Desc(v ssa.Value) string {
	if u, ok := v.(*ssa.UnOp); ok && u.Op == token.MUL {
		if a, ok := u.X.(*ssa.Alloc); ok && SingleStore(a) == nil {
			if sv := pt.lastStore(a, u); sv != nil {
				return pt.Desc(sv)
			}
			if lit := pt.fieldwise(a, u); lit != "" {
				return lit
			}
		}
	}
	return pt.dFor(v).Of(v)
}

func (pt *Path) lastStore(a *ssa.Alloc, before ssa.Instruction) ssa.Value {
	var last ssa.Value
	for _, b := range pt.Blocks {
		for _, ins := range b.Instrs {
			if ins == before {
				return last
			}
			if st, ok := ins.(*ssa.Store); ok && st.Addr == a {
				last = st.Val
			}
		}
	}
	return last
}

// ArgDesc is the descriptor on this path of the i-th source-level argument
// of the event's call (-1 = receiver).
func (pt *Path) ArgDesc(e Ev, i int) string {
	v := Arg(e.C, i)
	if v == nil {
		return "<missing>"
	}
	if e.fr != nil && e.fr.fn != pt.Fn {
		// an event inside a helper that was walked through: in the caller's terms
		if _, isConst := v.(*ssa.Const); !isConst {
			return pt.p.frameD(e.fr, false).Of(v)
		}
	}
	return pt.Desc(v)
}

// ArgDeep is ArgDesc with single-block pure wrappers of the module rendered as
// the expression they return.
func (pt *Path) ArgDeep(e Ev, i int) string {
	v := Arg(e.C, i)
	if v == nil {
		return "<missing>"
	}
	var d D
	if e.fr != nil && e.fr.fn != pt.Fn {
		d = *pt.p.frameD(e.fr, false)
	} else {
		d = *pt.dFor(v)
	}
	d.Deep = true
	return d.Of(v)
}

// Count returns how many events on the path satisfy m.
func (pt *Path) Count(m func(Ev) bool) int {
	n := 0
	for _, e := range pt.Evs {
		if m(e) {
			n++
		}
	}
	return n
}

// Index returns the position of the first event satisfying m, or -1.
func (pt *Path) Index(m func(Ev) bool) int {
	for i, e := range pt.Evs {
		if m(e) {
			return i
		}
	}
	return -1
}

// Describe renders the path compactly for reports.
func (pt *Path) Describe() string {
	var bs []string
	for _, b := range pt.Blocks {
		bs = append(bs, fmt.Sprint(b.Index))
	}
	return fmt.Sprintf("%s blocks[%s] assuming {%s} ends:%s", ShortFn(pt.Fn), strings.Join(bs, ","), strings.Join(AtomStrings(pt.Atoms), " "), pt.End)
}

// PassesThrough reports whether the path contains the block.
func (pt *Path) PassesThrough(b *ssa.BasicBlock) bool {
	for _, x := range pt.Blocks {
		if x == b {
			return true
		}
	}
	return false
}

// AtomsBefore returns the atoms assumed on the path before control reached
// the block of ins.
func (pt *Path) AtomsBefore(ins ssa.Instruction) []Atom {
	if s, ok := pt.step(ins); ok && len(pt.atomStep) == len(pt.Atoms) {
		var out []Atom
		for i, a := range pt.Atoms {
			if pt.atomStep[i] <= s {
				out = append(out, a)
			}
		}
		return out
	}
	idx := -1
	for i, b := range pt.Blocks {
		if b == ins.Block() {
			idx = i
			break
		}
	}
	if idx < 0 {
		return nil
	}
	var out []Atom
	for i, a := range pt.Atoms {
		if pt.AtomAt[i] < idx {
			out = append(out, a)
		}
	}
	return out
}

// step is the position of the instruction's first execution on the path.
func (pt *Path) step(ins ssa.Instruction) (int, bool) {
	if pt.stepOf == nil {
		pt.stepOf = map[ssa.Instruction]int{}
		for i, x := range pt.order {
			if _, dup := pt.stepOf[x]; !dup {
				pt.stepOf[x] = i
			}
		}
	}
	s, ok := pt.stepOf[ins]
	return s, ok
}

// HasBefore reports whether atom was assumed before reaching ins.
func (pt *Path) HasBefore(ins ssa.Instruction, atom string) bool {
	return HasAtom(pt.AtomsBefore(ins), ParseAtom(atom))
}

// fieldwise renders a struct local that is assigned field by field (go/ssa
// writes `x = T{...}` straight into x's fields) as the literal made of the
// last value stored to each field on the path before the given instruction.
func (pt *Path) fieldwise(a *ssa.Alloc, before ssa.Instruction) string {
	ptr, ok := a.Type().Underlying().(*types.Pointer)
	if !ok {
		return ""
	}
	st, ok := ptr.Elem().Underlying().(*types.Struct)
	if !ok {
		return ""
	}
	last := map[string]ssa.Value{}
	done := false
	for _, b := range pt.Blocks {
		if done {
			break
		}
		for _, ins := range b.Instrs {
			if ins == before {
				done = true
				break
			}
			s, ok := ins.(*ssa.Store)
			if !ok {
				continue
			}
			if fa, ok := s.Addr.(*ssa.FieldAddr); ok && fa.X == a {
				last[st.Field(fa.Field).Name()] = s.Val
			}
		}
	}
	if len(last) == 0 {
		return ""
	}
	var names []string
	for n := range last {
		names = append(names, n)
	}
	sort.Strings(names)
	var parts []string
	for _, n := range names {
		parts = append(parts, n+":"+pt.Desc(last[n]))
	}
	return typeShort(ptr.Elem()) + "{" + strings.Join(parts, ",") + "}"
}

// StoreEv is a store executed on a path.
type StoreEv struct {
	Instr *ssa.Store
	Addr  string
	Val   string
}

// Stores lists the stores executed on the path, in order, with path-resolved
// descriptors of the address and the value.
func (pt *Path) Stores() []StoreEv {
	var out []StoreEv
	for _, b := range pt.Blocks {
		for _, ins := range b.Instrs {
			if st, ok := ins.(*ssa.Store); ok {
				out = append(out, StoreEv{st, pt.dFor(st.Addr).Of(st.Addr), pt.Desc(st.Val)})
			}
		}
	}
	return out
}

// StoresTo returns the values stored on the path to the address with the
// given descriptor.
func (pt *Path) StoresTo(addr string) []string {
	var out []string
	for _, s := range pt.Stores() {
		if s.Addr == addr {
			out = append(out, s.Val)
		}
	}
	return out
}

// constCond evaluates a branch condition that, with phis resolved along the
// path, compares two constants (e.g. a variable that was just set to nil).
func constCond(cond ssa.Value, phiVal func(*ssa.Phi) ssa.Value) (val, known bool) {
	neg := false
	for {
		if u, ok := cond.(*ssa.UnOp); ok && u.Op == token.NOT {
			cond = u.X
			neg = !neg
			continue
		}
		break
	}
	res := func(v ssa.Value) ssa.Value {
		for i := 0; i < 8; i++ {
			switch x := v.(type) {
			case *ssa.Phi:
				if phiVal == nil {
					return v
				}
				r := phiVal(x)
				if r == nil {
					return v
				}
				v = r
			case *ssa.MakeInterface:
				v = x.X
			case *ssa.ChangeType:
				v = x.X
			default:
				return v
			}
		}
		return v
	}
	b, ok := cond.(*ssa.BinOp)
	if !ok || (b.Op != token.EQL && b.Op != token.NEQ) {
		return false, false
	}
	x, okx := res(b.X).(*ssa.Const)
	y, oky := res(b.Y).(*ssa.Const)
	if !okx || !oky {
		return false, false
	}
	var eq bool
	switch {
	case x.IsNil() && y.IsNil():
		eq = true
	case x.IsNil() != y.IsNil():
		eq = false
	case x.Value != nil && y.Value != nil:
		eq = constant.Compare(x.Value, token.EQL, y.Value)
	default:
		return false, false
	}
	if b.Op == token.NEQ {
		eq = !eq
	}
	if neg {
		eq = !eq
	}
	return eq, true
}

func rootAlloc(v ssa.Value) *ssa.Alloc {
	for {
		switch x := v.(type) {
		case *ssa.FieldAddr:
			v = x.X
		case *ssa.IndexAddr:
			v = x.X
		case *ssa.Alloc:
			return x
		default:
			return nil
		}
	}
}

// Precedes reports whether instruction a is executed before instruction b on
// the path (first occurrences).
func (pt *Path) Precedes(a, b ssa.Instruction) bool {
	sa, oka := pt.step(a)
	sb, okb := pt.step(b)
	return oka && okb && sa < sb
}
