package core

import (
	"fmt"
	"go/constant"
	"go/token"
	"go/types"
	"sort"
	"strings"

	"golang.org/x/tools/go/ssa"
)

// Ev is a call event on a path.
type Ev struct {
	Instr ssa.Instruction
	C     *ssa.CallCommon
	Kind  string // "call", "defer" (run at function exit), "go"
}

// Path is one acyclic control-flow path through a function (DESIGN E3/E6):
// the blocks, the branch atoms assumed along it (phis resolved along the
// path), the calls in execution order and how it ends.
type Path struct {
	Fn     *ssa.Function
	Blocks []*ssa.BasicBlock
	Atoms  []Atom
	AtomAt []int // index into Blocks of the branching block of each atom
	Evs    []Ev
	Ret    *ssa.Return // nil when the path ends in a panic or loops back
	End    string      // "return", "panic", "loop"
	D      *D
	pred   map[*ssa.BasicBlock]*ssa.BasicBlock
}

// MaxPaths bounds the enumeration; exceeding it makes the result incomplete.
const MaxPaths = 60000

// Paths enumerates the acyclic paths of fn from its entry block. A branch is
// not taken when it contradicts an atom already assumed on the path
// (atom-consistent paths); conditions that are phis of constants are resolved
// along the path. complete is false when the bound was hit.
func (p *Prog) Paths(fn *ssa.Function) (paths []*Path, complete bool) {
	if len(fn.Blocks) == 0 {
		return nil, true
	}
	complete = true
	type state struct {
		blocks []*ssa.BasicBlock
		onPath map[*ssa.BasicBlock]bool
		pred   map[*ssa.BasicBlock]*ssa.BasicBlock
		atoms  []Atom
		atomAt []int
		keys   map[string]bool // identity keys → polarity
		evs    []Ev
		defers []Ev
	}
	var rec func(st *state, b *ssa.BasicBlock)
	mkD := func(st *state, ident bool) *D {
		d := &D{P: p, CallIdentity: ident}
		pred := st.pred
		blocks := st.blocks
		d.LoadVal = func(u *ssa.UnOp) ssa.Value {
			a, ok := u.X.(*ssa.Alloc)
			if !ok {
				return nil
			}
			var last ssa.Value
			for _, b := range blocks {
				for _, ins := range b.Instrs {
					if ins == u {
						return last
					}
					if s, ok := ins.(*ssa.Store); ok && s.Addr == a {
						last = s.Val
					}
				}
			}
			return nil
		}
		d.PhiVal = func(ph *ssa.Phi) ssa.Value {
			pb, ok := pred[ph.Block()]
			if !ok {
				return nil
			}
			for i, q := range ph.Block().Preds {
				if q == pb {
					return ph.Edges[i]
				}
			}
			return nil
		}
		return d
	}
	finish := func(st *state, end string, ret *ssa.Return) {
		if len(paths) >= MaxPaths {
			complete = false
			return
		}
		pt := &Path{Fn: fn, Blocks: append([]*ssa.BasicBlock{}, st.blocks...), Atoms: append([]Atom{}, st.atoms...), AtomAt: append([]int{}, st.atomAt...),
			Evs: append([]Ev{}, st.evs...), Ret: ret, End: end}
		pt.pred = map[*ssa.BasicBlock]*ssa.BasicBlock{}
		for k, v := range st.pred {
			pt.pred[k] = v
		}
		st2 := &state{pred: pt.pred, blocks: pt.Blocks}
		pt.D = mkD(st2, false)
		paths = append(paths, pt)
	}
	rec = func(st *state, b *ssa.BasicBlock) {
		if !complete {
			return
		}
		if st.onPath[b] {
			finish(st, "loop", nil)
			return
		}
		st.onPath[b] = true
		st.blocks = append(st.blocks, b)
		nEvs, nDef := len(st.evs), len(st.defers)
		defer func() {
			st.onPath[b] = false
			st.blocks = st.blocks[:len(st.blocks)-1]
			st.evs = st.evs[:nEvs]
			st.defers = st.defers[:nDef]
		}()
		for _, ins := range b.Instrs {
			switch x := ins.(type) {
			case *ssa.Call:
				st.evs = append(st.evs, Ev{x, x.Common(), "call"})
			case *ssa.Go:
				st.evs = append(st.evs, Ev{x, x.Common(), "go"})
			case *ssa.Defer:
				st.defers = append(st.defers, Ev{x, x.Common(), "defer"})
			case *ssa.RunDefers:
				for i := len(st.defers) - 1; i >= 0; i-- {
					st.evs = append(st.evs, st.defers[i])
				}
			case *ssa.Return:
				finish(st, "return", x)
				return
			case *ssa.Panic:
				finish(st, "panic", nil)
				return
			case *ssa.Jump:
				st.pred[b.Succs[0]] = b
				rec(st, b.Succs[0])
				return
			case *ssa.If:
				for i, succ := range b.Succs {
					pol := i == 0
					dI := mkD(st, true)
					if val, known := constCond(x.Cond, dI.PhiVal); known && val != pol {
						continue // comparison of two constants on this path: other branch infeasible
					}
					key := dI.NormAtom(x.Cond, pol)
					// constant condition?
					if key.S == "true" || key.S == "false" {
						val := (key.S == "true") == key.Pol
						if !val {
							continue
						}
					}
					if prev, ok := st.keys[key.S]; ok && prev != key.Pol {
						continue // contradicts an atom assumed earlier on this path
					}
					_, had := st.keys[key.S]
					st.keys[key.S] = key.Pol
					disp := mkD(st, false).NormAtom(x.Cond, pol)
					st.atoms = append(st.atoms, disp)
					st.atomAt = append(st.atomAt, len(st.blocks)-1)
					oldPred, hadPred := st.pred[succ]
					st.pred[succ] = b
					rec(st, succ)
					if hadPred {
						st.pred[succ] = oldPred
					} else {
						delete(st.pred, succ)
					}
					st.atoms = st.atoms[:len(st.atoms)-1]
					st.atomAt = st.atomAt[:len(st.atomAt)-1]
					if !had {
						delete(st.keys, key.S)
					}
				}
				return
			}
		}
		// block without terminator handled above (e.g. select lowered blocks)
		for _, succ := range b.Succs {
			st.pred[succ] = b
			rec(st, succ)
		}
	}
	st := &state{onPath: map[*ssa.BasicBlock]bool{}, pred: map[*ssa.BasicBlock]*ssa.BasicBlock{}, keys: map[string]bool{}}
	rec(st, fn.Blocks[0])
	return paths, complete
}

// Has reports whether the path assumed the atom (given as "+s" or "-s").
func (pt *Path) Has(atom string) bool { return HasAtom(pt.Atoms, ParseAtom(atom)) }

// HasAny reports whether the path assumed one of the atoms.
func (pt *Path) HasAny(atoms ...string) bool {
	for _, a := range atoms {
		if pt.Has(a) {
			return true
		}
	}
	return false
}

// HasAll reports whether the path assumed all of the atoms.
func (pt *Path) HasAll(atoms ...string) bool {
	for _, a := range atoms {
		if !pt.Has(a) {
			return false
		}
	}
	return true
}

// RetDesc returns the descriptor of the i-th returned value on this path.
func (pt *Path) RetDesc(i int) string {
	if pt.Ret == nil || i >= len(pt.Ret.Results) {
		return "<none>"
	}
	return pt.Desc(pt.Ret.Results[i])
}

// Desc is the descriptor of v on this path: phis are resolved along the path
// and a load of a multi-store local (a named result spilled because of a
// defer) is resolved to the last value stored to it on the path.
func (pt *Path) Desc(v ssa.Value) string {
	if u, ok := v.(*ssa.UnOp); ok && u.Op == token.MUL {
		if a, ok := u.X.(*ssa.Alloc); ok && SingleStore(a) == nil {
			if sv := pt.lastStore(a, u); sv != nil {
				return pt.Desc(sv)
			}
			if lit := pt.fieldwise(a, u); lit != "" {
				return lit
			}
		}
	}
	return pt.D.Of(v)
}

func (pt *Path) lastStore(a *ssa.Alloc, before ssa.Instruction) ssa.Value {
	var last ssa.Value
	for _, b := range pt.Blocks {
		for _, ins := range b.Instrs {
			if ins == before {
				return last
			}
			if st, ok := ins.(*ssa.Store); ok && st.Addr == a {
				last = st.Val
			}
		}
	}
	return last
}

// ArgDesc is the descriptor on this path of the i-th source-level argument
// of the event's call (-1 = receiver).
func (pt *Path) ArgDesc(e Ev, i int) string {
	v := Arg(e.C, i)
	if v == nil {
		return "<missing>"
	}
	return pt.Desc(v)
}

// Count returns how many events on the path satisfy m.
func (pt *Path) Count(m func(Ev) bool) int {
	n := 0
	for _, e := range pt.Evs {
		if m(e) {
			n++
		}
	}
	return n
}

// Index returns the position of the first event satisfying m, or -1.
func (pt *Path) Index(m func(Ev) bool) int {
	for i, e := range pt.Evs {
		if m(e) {
			return i
		}
	}
	return -1
}

// Describe renders the path compactly for reports.
func (pt *Path) Describe() string {
	var bs []string
	for _, b := range pt.Blocks {
		bs = append(bs, fmt.Sprint(b.Index))
	}
	return fmt.Sprintf("%s blocks[%s] assuming {%s} ends:%s", ShortFn(pt.Fn), strings.Join(bs, ","), strings.Join(AtomStrings(pt.Atoms), " "), pt.End)
}

// PassesThrough reports whether the path contains the block.
func (pt *Path) PassesThrough(b *ssa.BasicBlock) bool {
	for _, x := range pt.Blocks {
		if x == b {
			return true
		}
	}
	return false
}

// AtomsBefore returns the atoms assumed on the path before control reached
// the block of ins.
func (pt *Path) AtomsBefore(ins ssa.Instruction) []Atom {
	idx := -1
	for i, b := range pt.Blocks {
		if b == ins.Block() {
			idx = i
			break
		}
	}
	if idx < 0 {
		return nil
	}
	var out []Atom
	for i, a := range pt.Atoms {
		if pt.AtomAt[i] < idx {
			out = append(out, a)
		}
	}
	return out
}

// HasBefore reports whether atom was assumed before reaching ins.
func (pt *Path) HasBefore(ins ssa.Instruction, atom string) bool {
	return HasAtom(pt.AtomsBefore(ins), ParseAtom(atom))
}

// fieldwise renders a struct local that is assigned field by field (go/ssa
// writes `x = T{...}` straight into x's fields) as the literal made of the
// last value stored to each field on the path before the given instruction.
func (pt *Path) fieldwise(a *ssa.Alloc, before ssa.Instruction) string {
	ptr, ok := a.Type().Underlying().(*types.Pointer)
	if !ok {
		return ""
	}
	st, ok := ptr.Elem().Underlying().(*types.Struct)
	if !ok {
		return ""
	}
	last := map[string]ssa.Value{}
	done := false
	for _, b := range pt.Blocks {
		if done {
			break
		}
		for _, ins := range b.Instrs {
			if ins == before {
				done = true
				break
			}
			s, ok := ins.(*ssa.Store)
			if !ok {
				continue
			}
			if fa, ok := s.Addr.(*ssa.FieldAddr); ok && fa.X == a {
				last[st.Field(fa.Field).Name()] = s.Val
			}
		}
	}
	if len(last) == 0 {
		return ""
	}
	var names []string
	for n := range last {
		names = append(names, n)
	}
	sort.Strings(names)
	var parts []string
	for _, n := range names {
		parts = append(parts, n+":"+pt.Desc(last[n]))
	}
	return typeShort(ptr.Elem()) + "{" + strings.Join(parts, ",") + "}"
}

// StoreEv is a store executed on a path.
type StoreEv struct {
	Instr *ssa.Store
	Addr  string
	Val   string
}

// Stores lists the stores executed on the path, in order, with path-resolved
// descriptors of the address and the value.
func (pt *Path) Stores() []StoreEv {
	var out []StoreEv
	for _, b := range pt.Blocks {
		for _, ins := range b.Instrs {
			if st, ok := ins.(*ssa.Store); ok {
				out = append(out, StoreEv{st, pt.D.Of(st.Addr), pt.Desc(st.Val)})
			}
		}
	}
	return out
}

// StoresTo returns the values stored on the path to the address with the
// given descriptor.
func (pt *Path) StoresTo(addr string) []string {
	var out []string
	for _, s := range pt.Stores() {
		if s.Addr == addr {
			out = append(out, s.Val)
		}
	}
	return out
}

// constCond evaluates a branch condition that, with phis resolved along the
// path, compares two constants (e.g. a variable that was just set to nil).
func constCond(cond ssa.Value, phiVal func(*ssa.Phi) ssa.Value) (val, known bool) {
	neg := false
	for {
		if u, ok := cond.(*ssa.UnOp); ok && u.Op == token.NOT {
			cond = u.X
			neg = !neg
			continue
		}
		break
	}
	res := func(v ssa.Value) ssa.Value {
		for i := 0; i < 8; i++ {
			switch x := v.(type) {
			case *ssa.Phi:
				if phiVal == nil {
					return v
				}
				r := phiVal(x)
				if r == nil {
					return v
				}
				v = r
			case *ssa.MakeInterface:
				v = x.X
			case *ssa.ChangeType:
				v = x.X
			default:
				return v
			}
		}
		return v
	}
	b, ok := cond.(*ssa.BinOp)
	if !ok || (b.Op != token.EQL && b.Op != token.NEQ) {
		return false, false
	}
	x, okx := res(b.X).(*ssa.Const)
	y, oky := res(b.Y).(*ssa.Const)
	if !okx || !oky {
		return false, false
	}
	var eq bool
	switch {
	case x.IsNil() && y.IsNil():
		eq = true
	case x.IsNil() != y.IsNil():
		eq = false
	case x.Value != nil && y.Value != nil:
		eq = constant.Compare(x.Value, token.EQL, y.Value)
	default:
		return false, false
	}
	if b.Op == token.NEQ {
		eq = !eq
	}
	if neg {
		eq = !eq
	}
	return eq, true
}
