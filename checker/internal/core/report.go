package core

import (
	"encoding/json"
	"fmt"
	"os"
	"path/filepath"
	"regexp"
	"sort"
	"strings"
	"time"
)

// Ob is one obligation: rule × construct with a verdict.
type Ob struct {
	Rule       string `json:"rule"`
	Key        string `json:"key"`
	Site       string `json:"site,omitempty"`
	Verdict    string `json:"verdict"` // discharged | violated | undecided | known
	Detail     string `json:"detail,omitempty"`
	Nontrivial bool   `json:"-"`
}

// Ctx collects obligations for one property run.
type Ctx struct {
	// Degraded, when set, says why verdicts of this run cannot be trusted as
	// violations (e.g. the FSM table is not in a form the extractor reads): Bad
	// then records undecided obligations.
	Degraded string
	P        *Prog
	Prop     string
	Tier     string
	Obs      []Ob
	Notes    []string
	Stats    map[string]interface{}
	Assume   []string
	seenKeys map[string]bool
	// MutantRun: print violated/undecided obligations as machine-readable
	// lines and write no evidence (used by the thorough tier's self-test).
	MutantRun bool
}

func NewCtx(p *Prog, prop, tier string) *Ctx {
	return &Ctx{P: p, Prop: prop, Tier: tier, Stats: map[string]interface{}{}, seenKeys: map[string]bool{}}
}

func (c *Ctx) add(rule, key, site, verdict, detail string, nontrivial bool) {
	c.Obs = append(c.Obs, Ob{Rule: rule, Key: key, Site: site, Verdict: verdict, Detail: detail, Nontrivial: nontrivial})
}

// OK records a discharged obligation that inspected at least one guard /
// path / table row / value flow.
func (c *Ctx) OK(rule, key, site, detail string) { c.add(rule, key, site, "discharged", detail, true) }

// Triv records a discharged obligation whose decision inspected nothing
// beyond the absence of a construct (e.g. "no row ⇒ rejected"); it is not
// counted as non-trivial in the evidence.
func (c *Ctx) Triv(rule, key, site, detail string) {
	c.add(rule, key, site, "discharged", detail, false)
}

// Bad records a violated obligation.
func (c *Ctx) Bad(rule, key, site, detail string) {
	if c.Degraded != "" {
		// an input every rule of this property reads could not be understood: what
		// looks like a violation may be an artefact of the partial reading
		c.add(rule, key, site, "undecided", "not decidable ("+c.Degraded+"); would read: "+detail, false)
		return
	}
	c.add(rule, key, site, "violated", detail, true)
}

// Stuck records an obligation the checker could not decide (unresolved
// anchor, unsupported shape). It fails the run without a VIOLATION line.
func (c *Ctx) Stuck(rule, key, site, detail string) {
	c.add(rule, key, site, "undecided", detail, false)
}

// Check is OK/Bad by condition.
func (c *Ctx) Check(cond bool, rule, key, site, okDetail, badDetail string) bool {
	if cond {
		c.OK(rule, key, site, okDetail)
	} else {
		c.Bad(rule, key, site, badDetail)
	}
	return cond
}

func (c *Ctx) Note(format string, a ...interface{}) {
	c.Notes = append(c.Notes, fmt.Sprintf(format, a...))
}

func (c *Ctx) Assumption(s string) { c.Assume = append(c.Assume, s) }

// Floor fails (undecided) when a rule matched fewer instances than confirmed by hand.
func (c *Ctx) Floor(rule string, got, min int, what string) {
	if got < min {
		c.Stuck(rule, "floor:"+what, "", fmt.Sprintf("rule matched %d %s, fewer than the %d confirmed on the reference tree: the rule would pass vacuously", got, what, min))
	}
}

// ---------------------------------------------------------------------------

type KnownFinding struct {
	Property string `json:"property"`
	Key      string `json:"key"`
	Status   string `json:"status"` // known | fixed
	Commit   string `json:"commit,omitempty"`
	What     string `json:"what"`
}

type knownFile struct {
	Findings []KnownFinding `json:"findings"`
}

func loadKnown(path string) ([]KnownFinding, error) {
	b, err := os.ReadFile(path)
	if err != nil {
		if os.IsNotExist(err) {
			return nil, nil
		}
		return nil, err
	}
	var kf knownFile
	if err := json.Unmarshal(b, &kf); err != nil {
		return nil, err
	}
	return kf.Findings, nil
}

var keySan = regexp.MustCompile(`[^A-Za-z0-9_.-]+`)

// Finish prints the report, writes evidence and returns the exit code.
func (c *Ctx) Finish(verifDir string, wall time.Duration, seed int64, level string, explanation string) int {
	if c.MutantRun {
		for _, o := range c.Obs {
			if o.Verdict == "violated" || o.Verdict == "undecided" {
				fmt.Printf("MUTANT-OB\t%s\t%s\t%s\t%s\n", o.Verdict, o.Rule, o.Key, o.Site)
			}
		}
		fmt.Println("MUTANT-DONE")
		return 0
	}
	known, err := loadKnown(filepath.Join(verifDir, "known_findings.json"))
	if err != nil {
		fmt.Printf("CHECKER-ERROR: cannot read known_findings.json: %v\n", err)
		return 2
	}
	isKnown := func(rule, key string) *KnownFinding {
		for i := range known {
			k := &known[i]
			if k.Property == c.Prop && k.Status == "known" && k.Key == rule+"|"+key {
				return k
			}
		}
		return nil
	}
	sort.SliceStable(c.Obs, func(i, j int) bool {
		if c.Obs[i].Rule != c.Obs[j].Rule {
			return natLess(c.Obs[i].Rule, c.Obs[j].Rule)
		}
		return c.Obs[i].Key < c.Obs[j].Key
	})
	// duplicate keys are a checker bug
	seen := map[string]int{}
	for _, o := range c.Obs {
		seen[o.Rule+"|"+o.Key]++
	}
	nViol, nStuck, nDis, nKnown, nNontriv := 0, 0, 0, 0, 0
	distinct := map[string]bool{}
	violDir := filepath.Join(verifDir, "evidence", "violations")
	var lines []string
	for i := range c.Obs {
		o := &c.Obs[i]
		if o.Nontrivial && !distinct[o.Rule+"|"+o.Key] {
			distinct[o.Rule+"|"+o.Key] = true
			nNontriv++
		}
		switch o.Verdict {
		case "discharged":
			nDis++
		case "undecided":
			nStuck++
			lines = append(lines, fmt.Sprintf("UNDECIDED %s: [%s %s] %s", o.Site, o.Rule, o.Key, o.Detail))
		case "violated":
			if k := isKnown(o.Rule, o.Key); k != nil {
				o.Verdict = "known"
				nKnown++
				lines = append(lines, fmt.Sprintf("KNOWN-FINDING: property=%s %s [%s|%s at %s]", c.Prop, k.What, o.Rule, o.Key, o.Site))
				continue
			}
			nViol++
			os.MkdirAll(violDir, 0o755)
			name := c.Prop + "-" + keySan.ReplaceAllString(o.Rule+"-"+o.Key, "_")
			if len(name) > 150 {
				name = name[:150]
			}
			path := filepath.Join(violDir, name+".json")
			b, _ := json.MarshalIndent(map[string]interface{}{"property": c.Prop, "rule": o.Rule, "key": o.Key, "site": o.Site, "detail": o.Detail,
				"replay": fmt.Sprintf("bin/dtcheck -property %s -tier quick   # re-runs the rule on /repo's current tree", c.Prop)}, "", " ")
			os.WriteFile(path, b, 0o644)
			lines = append(lines, fmt.Sprintf("%s: [%s %s] %s", o.Site, o.Rule, o.Key, o.Detail))
			lines = append(lines, fmt.Sprintf("VIOLATION property=%s replay=%s", c.Prop, path))
		}
	}
	for _, l := range lines {
		fmt.Println(l)
	}
	// evidence
	var samples []interface{}
	perRule := map[string]int{}
	for _, o := range c.Obs {
		if perRule[o.Rule] < 3 || o.Verdict != "discharged" {
			samples = append(samples, o)
		}
		perRule[o.Rule]++
	}
	ruleCounts := map[string]int{}
	for r, n := range perRule {
		ruleCounts[r] = n
	}
	cov := map[string]interface{}{
		"obligations":         len(c.Obs),
		"discharged":          nDis,
		"known_findings":      nKnown,
		"undecided":           nStuck,
		"evaluations":         len(c.Obs),
		"distinct_nontrivial": nNontriv,
		"rule":                "one obligation per (rule, construct) — construct = function/call site/table row/field/lock pair, keyed by name not line; non-trivial = its decision inspected at least one guard fact, path, table row, value flow or lock region (floor and bookkeeping obligations are excluded)",
		"explanation":         explanation,
		"samples":             samples,
		"obligations_by_rule": ruleCounts,
		"exhaustive":          true,
		"analysed":            c.Stats,
		"notes":               c.Notes,
		"checker_cmd":         fmt.Sprintf("bin/dtcheck -property %s -tier %s", c.Prop, c.Tier),
	}
	if c.Assume == nil {
		c.Assume = []string{}
	}
	if c.Notes == nil {
		c.Notes = []string{}
	}
	ev := map[string]interface{}{
		"property_id": c.Prop,
		"tier":        c.Tier,
		"seed":        seed,
		"level":       level,
		"coverage":    cov,
		"assumptions": c.Assume,
		"wall_s":      wall.Seconds(),
		"violations":  nViol,
	}
	os.MkdirAll(filepath.Join(verifDir, "evidence"), 0o755)
	b, _ := json.MarshalIndent(ev, "", " ")
	if err := os.WriteFile(filepath.Join(verifDir, "evidence", c.Prop+".json"), b, 0o644); err != nil {
		fmt.Printf("CHECKER-ERROR: cannot write evidence: %v\n", err)
		return 2
	}
	fmt.Printf("%s %s: %d obligations, %d discharged, %d known findings, %d violated, %d undecided (%.1fs)\n",
		c.Prop, c.Tier, len(c.Obs), nDis, nKnown, nViol, nStuck, wall.Seconds())
	if nViol > 0 {
		return 1
	}
	if nStuck > 0 {
		fmt.Printf("CHECKER-STUCK property=%s: %d obligations could not be decided (this is not a verdict on the property)\n", c.Prop, nStuck)
		return 2
	}
	return 0
}

func natLess(a, b string) bool {
	pa, pb := strings.Split(a, "."), strings.Split(b, ".")
	for i := 0; i < len(pa) && i < len(pb); i++ {
		if pa[i] == pb[i] {
			continue
		}
		var x, y int
		_, e1 := fmt.Sscanf(pa[i], "%d", &x)
		_, e2 := fmt.Sscanf(pb[i], "%d", &y)
		if e1 == nil && e2 == nil && x != y {
			return x < y
		}
		return pa[i] < pb[i]
	}
	return len(pa) < len(pb)
}
