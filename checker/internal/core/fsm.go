package core

import (
	"fmt"
	"go/ast"
	"go/constant"
	"go/token"
	"go/types"
	"sort"

	"golang.org/x/tools/go/ssa"
)

// Row is one declared transition: on Event in status From ("*" = FromAny) go
// to To (Kind "status"), keep the status and re-run its entry function
// ("nochange") or keep it and only record ("record").
type Row struct {
	Event string
	From  string
	Kind  string
	To    string
	Pos   token.Pos
}

// FSM is the transition relation and configuration extracted from
// channels/channels_fsm.go (DESIGN E1).
type FSM struct {
	Events    []string // events with rows, in declaration order
	Rows      []Row
	Action    map[string]*ssa.Function
	ActionLit map[string]*ast.FuncLit
	// ActionBind: for an action made by a factory called with constants, the
	// values of the factory's parameters (free variables of the closure)
	ActionBind   map[string]map[string]string
	EntryFuncs   map[string]string // status → function name
	Cleanup      []string
	Finality     []string
	Statuses     []string // all declared Status constants, by value
	EventCodes   []string // all declared EventCode constants, by value
	StatusLists  map[string][]string
	Problems     []string
	statusByVal  map[int64]string
	eventByVal   map[int64]string
	ChannelsPkg  string
	EventsVarPos token.Pos
}

// ExtractFSM reads the FSM tables off the syntax tree, with constants
// resolved by the type checker. Anything that is not literal is reported in
// Problems (the caller turns these into undecided obligations).
func (p *Prog) ExtractFSM() *FSM {
	f := &FSM{ActionBind: map[string]map[string]string{}, Action: map[string]*ssa.Function{}, ActionLit: map[string]*ast.FuncLit{}, EntryFuncs: map[string]string{},
		StatusLists: map[string][]string{}, statusByVal: map[int64]string{}, eventByVal: map[int64]string{}}
	root := p.ByRel[""]
	ch := p.ByRel["channels"]
	if root == nil || ch == nil {
		f.Problems = append(f.Problems, "root or channels package not loaded")
		return f
	}
	// constants
	type ent struct {
		name string
		pos  token.Pos
	}
	st, ev := map[int64]ent{}, map[int64]ent{}
	for _, n := range root.Types.Scope().Names() {
		c, ok := root.Types.Scope().Lookup(n).(*types.Const)
		if !ok || c.Val().Kind() != constant.Int {
			continue
		}
		v, _ := constant.Int64Val(c.Val())
		switch types.TypeString(c.Type(), nil) {
		case Mod + ".Status":
			if e, ok := st[v]; !ok || c.Pos() < e.pos {
				st[v] = ent{n, c.Pos()}
			}
		case Mod + ".EventCode":
			if e, ok := ev[v]; !ok || c.Pos() < e.pos {
				ev[v] = ent{n, c.Pos()}
			}
		}
	}
	var sv, evv []int64
	for v, e := range st {
		f.statusByVal[v] = e.name
		sv = append(sv, v)
	}
	for v, e := range ev {
		f.eventByVal[v] = e.name
		evv = append(evv, v)
	}
	sort.Slice(sv, func(i, j int) bool { return sv[i] < sv[j] })
	sort.Slice(evv, func(i, j int) bool { return evv[i] < evv[j] })
	for _, v := range sv {
		f.Statuses = append(f.Statuses, f.statusByVal[v])
	}
	for _, v := range evv {
		f.EventCodes = append(f.EventCodes, f.eventByVal[v])
	}
	constOf := func(info *types.Info, e ast.Expr, typ string) (string, bool) {
		tv, ok := info.Types[e]
		if !ok || tv.Value == nil || tv.Value.Kind() != constant.Int {
			return "", false
		}
		v, _ := constant.Int64Val(tv.Value)
		ts := types.TypeString(tv.Type, nil)
		switch {
		case ts == Mod+".Status" && (typ == "status" || typ == ""):
			n, ok := f.statusByVal[v]
			return n, ok
		case ts == Mod+".EventCode" && (typ == "event" || typ == ""):
			n, ok := f.eventByVal[v]
			return n, ok
		}
		return "", false
	}
	// status list literals of the root package (TransferringStates, ...)
	for _, file := range root.Syntax {
		for _, d := range file.Decls {
			gd, ok := d.(*ast.GenDecl)
			if !ok || gd.Tok != token.VAR {
				continue
			}
			for _, sp := range gd.Specs {
				vs := sp.(*ast.ValueSpec)
				if len(vs.Values) != 1 || len(vs.Names) != 1 {
					continue
				}
				cl, ok := vs.Values[0].(*ast.CompositeLit)
				if !ok {
					continue
				}
				var vals []string
				good := len(cl.Elts) > 0
				for _, e := range cl.Elts {
					n, ok := constOf(root.TypesInfo, e, "status")
					if !ok {
						good = false
						break
					}
					vals = append(vals, n)
				}
				if good {
					f.StatusLists[vs.Names[0].Name] = vals
				}
			}
		}
	}
	// package-level vars of channels
	vars := map[string]*ast.ValueSpec{}
	for _, file := range ch.Syntax {
		for _, d := range file.Decls {
			gd, ok := d.(*ast.GenDecl)
			if !ok || gd.Tok != token.VAR {
				continue
			}
			for _, sp := range gd.Specs {
				vs := sp.(*ast.ValueSpec)
				for _, n := range vs.Names {
					vars[n.Name] = vs
				}
			}
		}
	}
	statusList := func(name string) []string {
		vs := vars[name]
		if vs == nil || len(vs.Values) != 1 {
			f.Problems = append(f.Problems, "variable "+name+" not found or not a single literal")
			return nil
		}
		cl, ok := vs.Values[0].(*ast.CompositeLit)
		if !ok {
			f.Problems = append(f.Problems, name+" is not a composite literal")
			return nil
		}
		var out []string
		for _, e := range cl.Elts {
			n, ok := constOf(ch.TypesInfo, e, "status")
			if !ok {
				f.Problems = append(f.Problems, name+": non-constant element at "+p.Pos(e.Pos()))
				continue
			}
			out = append(out, n)
		}
		return out
	}
	f.Cleanup = statusList("CleanupStates")
	f.Finality = statusList("ChannelFinalityStates")
	if vs := vars["ChannelStateEntryFuncs"]; vs != nil && len(vs.Values) == 1 {
		if cl, ok := vs.Values[0].(*ast.CompositeLit); ok {
			for _, e := range cl.Elts {
				kv, ok := e.(*ast.KeyValueExpr)
				if !ok {
					f.Problems = append(f.Problems, "ChannelStateEntryFuncs: element is not key: value")
					continue
				}
				k, ok := constOf(ch.TypesInfo, kv.Key, "status")
				id, ok2 := kv.Value.(*ast.Ident)
				if !ok || !ok2 {
					f.Problems = append(f.Problems, "ChannelStateEntryFuncs: non-literal entry at "+p.Pos(kv.Pos()))
					continue
				}
				if _, dup := f.EntryFuncs[k]; dup {
					f.Problems = append(f.Problems, "ChannelStateEntryFuncs: duplicate key "+k)
				}
				f.EntryFuncs[k] = id.Name
			}
		} else {
			f.Problems = append(f.Problems, "ChannelStateEntryFuncs is not a composite literal")
		}
	} else {
		f.Problems = append(f.Problems, "ChannelStateEntryFuncs not found")
	}
	vs := vars["ChannelEvents"]
	if vs == nil || len(vs.Values) != 1 {
		f.Problems = append(f.Problems, "ChannelEvents not found")
		return f
	}
	f.EventsVarPos = vs.Pos()
	cl, ok := vs.Values[0].(*ast.CompositeLit)
	if !ok {
		f.Problems = append(f.Problems, "ChannelEvents is not a composite literal")
		return f
	}
	// anonymous functions of the package initialiser, by position
	anonByPos := map[token.Pos]*ssa.Function{}
	if sp := p.SSAByRel["channels"]; sp != nil {
		if init := sp.Func("init"); init != nil {
			var walk func(fn *ssa.Function)
			walk = func(fn *ssa.Function) {
				for _, a := range fn.AnonFuncs {
					anonByPos[a.Pos()] = a
					walk(a)
				}
			}
			walk(init)
		}
	}
	seenRow := map[string]bool{}
	// listOf resolves a package-level variable holding a list of statuses: a
	// composite literal of status constants, or X.AsFSMStates() of a status list
	// of the root package (depth one, no problems recorded)
	var listOf func(e ast.Expr) ([]string, bool)
	listOf = func(e ast.Expr) ([]string, bool) {
		switch x := e.(type) {
		case *ast.Ident:
			vs := vars[x.Name]
			if vs == nil {
				return nil, false
			}
			for i, n := range vs.Names {
				if n.Name == x.Name && i < len(vs.Values) {
					return listOf(vs.Values[i])
				}
			}
			return nil, false
		case *ast.CompositeLit:
			var out []string
			for _, el := range x.Elts {
				n, ok := constOf(ch.TypesInfo, el, "status")
				if !ok {
					return nil, false
				}
				out = append(out, n)
			}
			return out, true
		case *ast.CallExpr:
			if s2, ok := x.Fun.(*ast.SelectorExpr); ok && s2.Sel.Name == "AsFSMStates" {
				if s3, ok := s2.X.(*ast.SelectorExpr); ok {
					if l, ok := f.StatusLists[s3.Sel.Name]; ok {
						return l, true
					}
				}
			}
		}
		return nil, false
	}
	for _, el := range cl.Elts {
		var chain []*ast.CallExpr
		cur := ast.Expr(el)
		okChain := true
		for {
			call, ok := cur.(*ast.CallExpr)
			if !ok {
				okChain = false
				break
			}
			chain = append([]*ast.CallExpr{call}, chain...)
			sel, ok := call.Fun.(*ast.SelectorExpr)
			if !ok {
				okChain = false
				break
			}
			if id, ok := sel.X.(*ast.Ident); ok {
				if pn, ok := ch.TypesInfo.Uses[id].(*types.PkgName); ok && pn.Imported().Path() == "github.com/filecoin-project/go-statemachine/fsm" && sel.Sel.Name == "Event" {
					break
				}
				okChain = false
				break
			}
			cur = sel.X
		}
		if !okChain {
			f.Problems = append(f.Problems, "ChannelEvents: element at "+p.Pos(el.Pos())+" is not an fsm.Event(...) builder chain")
			continue
		}
		var evName string
		var pending []string
		havePending := false
		for _, call := range chain {
			sel := call.Fun.(*ast.SelectorExpr)
			switch sel.Sel.Name {
			case "Event":
				n, ok := constOf(ch.TypesInfo, call.Args[0], "event")
				if !ok {
					f.Problems = append(f.Problems, "non-constant event at "+p.Pos(call.Pos()))
				}
				evName = n
				for _, e := range f.Events {
					if e == n {
						f.Problems = append(f.Problems, "event "+n+" declared twice")
					}
				}
				f.Events = append(f.Events, n)
			case "From":
				n, ok := constOf(ch.TypesInfo, call.Args[0], "status")
				if !ok {
					f.Problems = append(f.Problems, "non-constant From at "+p.Pos(call.Pos()))
				}
				pending, havePending = []string{n}, true
			case "FromAny":
				pending, havePending = []string{"*"}, true
			case "FromMany":
				pending, havePending = nil, true
				for _, a := range call.Args {
					if n, ok := constOf(ch.TypesInfo, a, "status"); ok {
						pending = append(pending, n)
						continue
					}
					// X.AsFSMStates()  with X a status list of the root package
					got := false
					if c2, ok := a.(*ast.CallExpr); ok && call.Ellipsis.IsValid() {
						if s2, ok := c2.Fun.(*ast.SelectorExpr); ok && s2.Sel.Name == "AsFSMStates" {
							if s3, ok := s2.X.(*ast.SelectorExpr); ok {
								if l, ok := f.StatusLists[s3.Sel.Name]; ok {
									pending = append(pending, l...)
									got = true
								}
							}
						}
					}
					if !got && call.Ellipsis.IsValid() {
						// a package-level list spread: FromMany(pausableStates...)
						if l, ok := listOf(a); ok {
							pending = append(pending, l...)
							got = true
						}
					}
					if !got {
						f.Problems = append(f.Problems, "FromMany argument not understood at "+p.Pos(a.Pos()))
					}
				}
			case "To", "ToNoChange", "ToJustRecord":
				if !havePending {
					f.Problems = append(f.Problems, sel.Sel.Name+" without From at "+p.Pos(call.Pos()))
				}
				r := Row{Event: evName, Pos: call.Pos()}
				switch sel.Sel.Name {
				case "To":
					n, ok := constOf(ch.TypesInfo, call.Args[0], "status")
					if !ok {
						f.Problems = append(f.Problems, "non-constant To at "+p.Pos(call.Pos()))
					}
					r.Kind, r.To = "status", n
				case "ToNoChange":
					r.Kind = "nochange"
				case "ToJustRecord":
					r.Kind = "record"
				}
				for _, fr := range pending {
					r.From = fr
					k := evName + "/" + fr
					if seenRow[k] {
						f.Problems = append(f.Problems, "duplicate row "+k+" at "+p.Pos(call.Pos()))
					}
					seenRow[k] = true
					f.Rows = append(f.Rows, r)
				}
				havePending = false
			case "Action":
				lit, ok := call.Args[0].(*ast.FuncLit)
				if !ok {
					// a named function of the package used as the action
					if id, isId := call.Args[0].(*ast.Ident); isId {
						if fo, isFn := ch.TypesInfo.Uses[id].(*types.Func); isFn {
							if fn := p.SSA.FuncValue(fo); fn != nil && len(fn.Blocks) > 0 {
								f.Action[evName] = fn
								continue
							}
						}
					}
					// a factory call: Action(markPaused(true)) where the factory returns one closure
					if ce, isCall := call.Args[0].(*ast.CallExpr); isCall {
						if id, isId := ce.Fun.(*ast.Ident); isId {
							if fo, isFn := ch.TypesInfo.Uses[id].(*types.Func); isFn {
								if fac := p.SSA.FuncValue(fo); fac != nil && len(fac.AnonFuncs) == 1 && len(fac.Blocks) == 1 {
									bind := map[string]string{}
									okArgs := len(ce.Args) == len(fac.Params)
									for i, a := range ce.Args {
										tv, has := ch.TypesInfo.Types[a]
										if !has || tv.Value == nil {
											okArgs = false
											break
										}
										if okArgs {
											bind[fac.Params[i].Name()] = tv.Value.ExactString()
										}
									}
									if okArgs {
										f.Action[evName] = fac.AnonFuncs[0]
										f.ActionBind[evName] = bind
										continue
									}
								}
							}
						}
					}
					f.Problems = append(f.Problems, "Action of "+evName+" is not a function literal, a named function or a factory called with constants")
					continue
				}
				f.ActionLit[evName] = lit
				if fn := anonByPos[lit.Type.Func]; fn != nil {
					f.Action[evName] = fn
				} else if fn := anonByPos[lit.Pos()]; fn != nil {
					f.Action[evName] = fn
				} else {
					f.Problems = append(f.Problems, "SSA function for action of "+evName+" not found")
				}
			default:
				f.Problems = append(f.Problems, "unknown builder method "+sel.Sel.Name+" at "+p.Pos(call.Pos()))
			}
		}
	}
	return f
}

// Lookup applies the library's rule: the row for (event, status), else the
// FromAny row, else rejected.
func (f *FSM) Lookup(event, status string) (Row, bool) {
	var any *Row
	for i := range f.Rows {
		r := &f.Rows[i]
		if r.Event != event {
			continue
		}
		if r.From == status {
			return *r, true
		}
		if r.From == "*" {
			any = r
		}
	}
	if any != nil {
		return *any, true
	}
	return Row{}, false
}

// Next returns the status after applying event in status (same status for
// nochange/record), and whether the event is accepted.
func (f *FSM) Next(event, status string) (string, bool) {
	r, ok := f.Lookup(event, status)
	if !ok {
		return status, false
	}
	if r.Kind == "status" {
		return r.To, true
	}
	return status, true
}

// RowsOf returns the declared rows of an event.
func (f *FSM) RowsOf(event string) []Row {
	var out []Row
	for _, r := range f.Rows {
		if r.Event == event {
			out = append(out, r)
		}
	}
	return out
}

func (r Row) String() string {
	d := r.Kind
	if r.Kind == "status" {
		d = r.To
	}
	return fmt.Sprintf("%s: %s → %s", r.Event, r.From, d)
}

// FieldEffects returns the names of the fields of the struct pointed to by
// parameter index pi of fn that fn (transitively through static callees that
// receive the same pointer) stores to.
func (p *Prog) FieldEffects(fn *ssa.Function, pi int) map[string]bool {
	out := map[string]bool{}
	seen := map[string]bool{}
	var rec func(fn *ssa.Function, pi int)
	rec = func(fn *ssa.Function, pi int) {
		k := fmt.Sprintf("%p/%d", fn, pi)
		if seen[k] || pi >= len(fn.Params) {
			return
		}
		seen[k] = true
		root := fn.Params[pi]
		derived := map[ssa.Value]bool{root: true}
		for _, b := range fn.Blocks {
			for _, ins := range b.Instrs {
				switch x := ins.(type) {
				case *ssa.FieldAddr:
					if derived[x.X] {
						// address of a field of *root: a store to it is an effect
						for _, r := range *x.Referrers() {
							switch u := r.(type) {
							case *ssa.Store:
								if u.Addr == x {
									out[fieldNameOf(x.X.Type(), x.Field)] = true
								}
							case *ssa.FieldAddr, *ssa.IndexAddr:
								// nested write: attribute to the outer field
								for _, rr := range *u.(ssa.Value).Referrers() {
									if st, ok := rr.(*ssa.Store); ok && st.Addr == u.(ssa.Value) {
										out[fieldNameOf(x.X.Type(), x.Field)] = true
									}
								}
							case ssa.CallInstruction:
								// address of field passed to a call: assume written
								out[fieldNameOf(x.X.Type(), x.Field)] = true
							}
						}
					}
				case ssa.CallInstruction:
					c := x.Common()
					if sc := c.StaticCallee(); sc != nil && len(sc.Blocks) > 0 {
						for i, a := range c.Args {
							if derived[a] {
								rec(sc, i)
							}
						}
					}
				}
			}
		}
	}
	rec(fn, pi)
	return out
}

// ActionD returns a descriptor context for the action of an event: free
// variables of a factory-made closure read as the constants the factory was
// called with.
func (f *FSM) ActionD(p *Prog, ev string) *D {
	d := p.D()
	if b := f.ActionBind[ev]; len(b) > 0 {
		d.FreeVal = func(fv *ssa.FreeVar) (string, bool) {
			v, ok := b[fv.Name()]
			return v, ok
		}
	}
	return d
}
