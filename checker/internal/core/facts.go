package core

import (
	"go/token"
	"sort"
	"strings"

	"golang.org/x/tools/go/ssa"
)

// Fact is a branch condition known to hold (Pol=true) or not hold on entry to
// a block.
type Fact struct {
	Cond ssa.Value
	Pol  bool
}

// Atom is a normalised condition: a canonical string plus polarity.
type Atom struct {
	S   string
	Pol bool
}

func (a Atom) String() string {
	if a.Pol {
		return "+" + a.S
	}
	return "-" + a.S
}

// Facts returns, per block of fn, the conditions that dominate it (DESIGN
// E2): walking the dominator tree, a block that is the sole-predecessor
// successor of an If inherits the condition with the polarity of its edge.
func (p *Prog) Facts(fn *ssa.Function) map[*ssa.BasicBlock][]Fact {
	if r, ok := p.facts[fn]; ok {
		return r
	}
	res := map[*ssa.BasicBlock][]Fact{}
	var walk func(b *ssa.BasicBlock, inherited []Fact)
	walk = func(b *ssa.BasicBlock, inherited []Fact) {
		res[b] = inherited
		for _, d := range b.Dominees() {
			fs := inherited
			if iff, ok := b.Instrs[len(b.Instrs)-1].(*ssa.If); ok && soleEntry(d, b) {
				if b.Succs[0] == d && b.Succs[1] != d {
					fs = append(append([]Fact{}, inherited...), Fact{iff.Cond, true})
				} else if b.Succs[1] == d && b.Succs[0] != d {
					fs = append(append([]Fact{}, inherited...), Fact{iff.Cond, false})
				}
			}
			walk(d, fs)
		}
	}
	if len(fn.Blocks) > 0 {
		walk(fn.Blocks[0], nil)
	}
	p.facts[fn] = res
	return res
}

// NormAtom normalises a condition with polarity into an atom:
//   - `!c` flips polarity
//   - `a != b` is `a == b` with flipped polarity (operands ordered, nil last)
//   - `a > b` is `b < a`; `a >= b` is NOT `a < b`; `a <= b` is NOT `b < a`
func (d *D) NormAtom(cond ssa.Value, pol bool) Atom {
	for {
		if u, ok := cond.(*ssa.UnOp); ok && u.Op == token.NOT {
			cond = u.X
			pol = !pol
			continue
		}
		break
	}
	if ph, ok := cond.(*ssa.Phi); ok && d.PhiVal != nil {
		if r := d.PhiVal(ph); r != nil && r != cond {
			return d.NormAtom(r, pol)
		}
	}
	if c, ok := cond.(*ssa.Call); ok {
		if rv, sub, ok := d.inlinePureCond(c); ok {
			return sub.NormAtom(rv, pol)
		}
	}
	if b, ok := cond.(*ssa.BinOp); ok {
		x, y := d.Of(b.X), d.Of(b.Y)
		// T(v) == constT compares v with the constant in v's own type
		if ct, ok := b.X.(*ssa.ChangeType); ok {
			if f, ok := d.foldConv(b.Y, ct.X.Type()); ok {
				x, y = d.Of(ct.X), f
			}
		} else if ct, ok := b.Y.(*ssa.ChangeType); ok {
			if f, ok := d.foldConv(b.X, ct.X.Type()); ok {
				x, y = f, d.Of(ct.X)
			}
		}
		switch b.Op {
		case token.EQL, token.NEQ:
			if x > y {
				x, y = y, x
			}
			if x == "nil" {
				x, y = y, x
			}
			if b.Op == token.NEQ {
				pol = !pol
			}
			// a value compared with itself, or a freshly made error compared with nil
			// (both arise when a helper that was walked through returns nil / an error
			// and its caller tests the result): a constant, not a condition
			if x == y {
				return Atom{"true", pol}
			}
			if y == "nil" && nonNilDesc(x) {
				return Atom{"false", pol}
			}
			return Atom{x + "==" + y, pol}
		case token.LSS:
			return lenZero(Atom{x + "<" + y, pol})
		case token.GTR:
			return lenZero(Atom{y + "<" + x, pol})
		case token.GEQ: // x >= y  ≡ !(x < y)
			return lenZero(Atom{x + "<" + y, !pol})
		case token.LEQ: // x <= y ≡ !(y < x)
			return lenZero(Atom{y + "<" + x, !pol})
		}
	}
	return Atom{d.Of(cond), pol}
}

// AtomsAt returns the normalised atoms holding at the block.
func (p *Prog) AtomsAt(b *ssa.BasicBlock) []Atom {
	d := p.D()
	var out []Atom
	for _, f := range p.Facts(b.Parent())[b] {
		out = append(out, d.NormAtom(f.Cond, f.Pol))
	}
	return out
}

// AtomsAtInstr is AtomsAt for the instruction's block.
func (p *Prog) AtomsAtInstr(ins ssa.Instruction) []Atom { return p.AtomsAt(ins.Block()) }

// HasAtom reports whether the list contains the given atom (exact string).
func HasAtom(as []Atom, want Atom) bool {
	for _, a := range as {
		if a == want {
			return true
		}
	}
	return false
}

// ParseAtom parses "+s" / "-s".
func ParseAtom(s string) Atom {
	if strings.HasPrefix(s, "-") {
		return Atom{s[1:], false}
	}
	return Atom{strings.TrimPrefix(s, "+"), true}
}

// AtomStrings renders atoms sorted.
func AtomStrings(as []Atom) []string {
	var out []string
	for _, a := range as {
		out = append(out, a.String())
	}
	sort.Strings(out)
	return out
}

// soleEntry reports whether b is the only predecessor through which control
// first enters d: every other predecessor is dominated by d (a back edge of a
// loop headed by d). Branch conditions are immutable SSA values, so a fact
// established on that edge keeps holding inside the loop.
func soleEntry(d, b *ssa.BasicBlock) bool {
	n := 0
	for _, p := range d.Preds {
		if p == b {
			n++
			continue
		}
		if !d.Dominates(p) {
			return false
		}
	}
	return n == 1
}

// lenZero normalises comparisons of a length with zero/one to the equality
// with zero (a length is never negative): 0 < len(x) ≡ ¬(0 == len(x)),
// len(x) < 1 ≡ (0 == len(x)).
func lenZero(a Atom) Atom {
	const z = "0:int<dyn:len("
	if strings.HasPrefix(a.S, z) {
		return Atom{"0:int==dyn:len(" + a.S[len(z):], !a.Pol}
	}
	if strings.HasPrefix(a.S, "dyn:len(") && strings.HasSuffix(a.S, ")<1:int") {
		return Atom{"0:int==" + strings.TrimSuffix(a.S, "<1:int"), a.Pol}
	}
	return a
}

// nonNilDesc: descriptors of values that are never nil: a fresh error, or a
// sentinel error variable (package-level Err…).
func nonNilDesc(x string) bool {
	if strings.HasPrefix(x, "errors.New(") || strings.HasPrefix(x, "fmt.Errorf(") {
		return true
	}
	name := x[strings.LastIndex(x, ".")+1:]
	if len(name) > 3 && strings.HasPrefix(name, "Err") && name[3] >= 'A' && name[3] <= 'Z' && !strings.ContainsAny(x, "()[]{} ") {
		return true
	}
	return false
}
