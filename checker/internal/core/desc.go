package core

import (
	_ "embed"
	"encoding/json"
	"fmt"
	"go/constant"
	"go/token"
	"go/types"
	"sort"
	"strings"

	"golang.org/x/tools/go/ssa"
)

// D computes canonical value descriptors (DESIGN E0). A descriptor is a
// string that identifies *what value* an SSA register holds in terms of
// parameters, constants, globals, fields and calls, chasing through the
// artefacts of go/ssa (spilled locals, extracts, interface conversions).
// Two registers with the same descriptor denote "the same value" for the
// purposes of guard facts and argument rules.
type D struct {
	// Deep renders calls to single-block side-effect-free functions of the module
	// as the expression they return (wrappers and accessors become transparent).
	Deep bool
	P    *Prog
	// PhiVal, when non-nil, resolves a phi to the edge taken on the current
	// path (used by the path enumerator).
	PhiVal func(*ssa.Phi) ssa.Value
	// CallIdentity makes call results render with their register name, so that
	// two calls of the same function are different values.
	CallIdentity bool
	// LoadVal, when non-nil, resolves a load of a reassigned local to the value
	// last stored to it on the current path.
	LoadVal func(*ssa.UnOp) ssa.Value
	// SubstVal: parameters of a helper rendered inline that were passed constants
	SubstVal map[*ssa.Parameter]*ssa.Const
	// FreeVal, when non-nil, gives the constant a captured variable is bound to
	FreeVal func(*ssa.FreeVar) (string, bool)
	// AllocAt, when non-nil, gives the value last stored to the whole of a
	// reassigned struct local before the given load on the path being described
	// (nil when a field of it was written in between).
	AllocAt func(*ssa.Alloc, ssa.Instruction) ssa.Value
	depth   int
	inLit   map[*ssa.Alloc]bool
	// Subst renders the listed parameters as the given descriptors (used when a
	// rule looks into a helper on behalf of its single caller).
	Subst map[*ssa.Parameter]string
	// CallVal gives the results (descriptors in the caller's terms) of a call
	// to a helper that was walked through on the current path.
	CallVal func(*ssa.Call) []string
}

func (p *Prog) D() *D { return &D{P: p} }

const maxDescDepth = 14

// Of returns the canonical descriptor of v.
func (d *D) Of(v ssa.Value) string {
	if v == nil {
		return "<none>"
	}
	if d.depth > maxDescDepth {
		return "…"
	}
	d.depth++
	defer func() { d.depth-- }()
	switch x := v.(type) {
	case *ssa.Parameter:
		if s, ok := d.Subst[x]; ok {
			return s
		}
		return paramName(x)
	case *ssa.FreeVar:
		if b := freeVarBinding(x); b != nil {
			if _, isAlloc := b.(*ssa.Alloc); !isAlloc {
				return d.Of(b)
			}
		}
		return x.Name()
	case *ssa.Const:
		if n := d.P.ConstName(x); n != "" {
			return n
		}
		return constStr(x)
	case *ssa.Global:
		return Short(globalName(x))
	case *ssa.Function:
		return "func:" + ShortFn(x)
	case *ssa.Builtin:
		return x.Name()
	case *ssa.Alloc:
		// address of a local
		if lit := d.structLit(x); lit != "" {
			return "&" + lit
		}
		if sv := onlyWholeStore(x); sv != nil {
			// address of a variable that is assigned exactly once (it may be
			// passed on by reference, e.g. &voucher)
			return "&(" + d.Of(sv) + ")"
		}
		return "&" + allocName(x)
	case *ssa.FieldAddr:
		return projectField(d.path(x.X), fieldNameOf(x.X.Type(), x.Field))
	case *ssa.Field:
		return projectField(d.Of(x.X), fieldNameOf(x.X.Type(), x.Field))
	case *ssa.IndexAddr:
		return d.path(x.X) + "[" + d.Of(x.Index) + "]"
	case *ssa.Index:
		return d.Of(x.X) + "[" + d.Of(x.Index) + "]"
	case *ssa.Lookup:
		return d.Of(x.X) + "[" + d.Of(x.Index) + "]"
	case *ssa.UnOp:
		switch x.Op {
		case token.MUL:
			return d.load(x)
		case token.NOT:
			return "!" + d.Of(x.X)
		case token.ARROW:
			return "<-" + d.Of(x.X)
		case token.SUB:
			return "-" + d.Of(x.X)
		}
		return x.Op.String() + d.Of(x.X)
	case *ssa.BinOp:
		return d.binop(x)
	case *ssa.Extract:
		if c, ok := x.Tuple.(*ssa.Call); ok && d.CallVal != nil {
			if vals := d.CallVal(c); vals != nil && x.Index < len(vals) {
				return vals[x.Index]
			}
		}
		return d.Of(x.Tuple) + "#" + fmt.Sprint(x.Index)
	case *ssa.Call:
		if d.CallVal != nil {
			if vals := d.CallVal(x); len(vals) == 1 {
				return vals[0]
			}
		}
		if s, ok := d.inlinePure(x); ok {
			return s
		}
		if d.CallIdentity {
			return d.call(x.Common()) + "@" + x.Name()
		}
		return d.call(x.Common())
	case *ssa.MakeInterface:
		return d.Of(x.X)
	case *ssa.ChangeInterface:
		return d.Of(x.X)
	case *ssa.ChangeType:
		if f, ok := d.foldConv(x.X, x.Type()); ok {
			return f
		}
		return d.Of(x.X)
	case *ssa.Convert:
		if f, ok := d.foldConv(x.X, x.Type()); ok {
			return f
		}
		return typeShort(x.Type()) + "(" + d.Of(x.X) + ")"
	case *ssa.TypeAssert:
		s := d.Of(x.X) + ".(" + typeShort(x.AssertedType) + ")"
		if x.CommaOk {
			s += "?"
		}
		return s
	case *ssa.Phi:
		if d.PhiVal != nil {
			if r := d.PhiVal(x); r != nil {
				return d.Of(r)
			}
		}
		var first string
		same := true
		for i, e := range x.Edges {
			s := d.Of(e)
			if i == 0 {
				first = s
			} else if s != first {
				same = false
			}
		}
		if same && len(x.Edges) > 0 {
			return first
		}
		return "phi:" + x.Comment + "@" + fmt.Sprint(x.Block().Index)
	case *ssa.MakeClosure:
		fn := x.Fn.(*ssa.Function)
		if fn.Synthetic != "" && strings.HasPrefix(fn.Synthetic, "bound method") && len(x.Bindings) == 1 {
			return d.Of(x.Bindings[0]) + "." + strings.TrimSuffix(fn.Name(), "$bound") + "$bound"
		}
		return "closure:" + ShortFn(fn)
	case *ssa.Slice:
		if a, ok := x.X.(*ssa.Alloc); ok {
			if el := d.arrayLit(a); el != "" {
				return el
			}
		}
		return d.Of(x.X) + "[:]"
	case *ssa.MakeSlice:
		return "make(" + typeShort(x.Type()) + ")"
	case *ssa.MakeMap:
		return "make(" + typeShort(x.Type()) + ")"
	case *ssa.MakeChan:
		return "make(" + typeShort(x.Type()) + ")"
	case *ssa.Select:
		var st []string
		for _, x := range x.States {
			dir := "<-"
			if x.Dir == types.SendOnly {
				dir = "->"
			}
			st = append(st, dir+d.Of(x.Chan))
		}
		if !x.Blocking {
			st = append(st, "default")
		}
		return "select(" + strings.Join(st, ",") + ")"
	case *ssa.Next, *ssa.Range:
		return "iter:" + v.Name()
	}
	return "?" + v.Name()
}

// path renders an address-valued operand as an l-value path, so that
// `&x.f` loaded and `x.f` read the same.
func (d *D) path(v ssa.Value) string {
	switch x := v.(type) {
	case *ssa.Alloc:
		if sv := SingleStore(x); sv != nil {
			return d.Of(sv)
		}
		if lit := d.structLit(x); lit != "" {
			return lit
		}
		return allocName(x)
	case *ssa.FieldAddr, *ssa.IndexAddr:
		return d.Of(x)
	case *ssa.UnOp:
		if x.Op == token.MUL {
			// pointer loaded from somewhere: *p then .f  → p.f
			return d.Of(x)
		}
	case *ssa.FreeVar:
		return x.Name()
	case *ssa.Global:
		return Short(globalName(x))
	}
	return d.Of(v)
}

func (d *D) load(x *ssa.UnOp) string {
	switch a := x.X.(type) {
	case *ssa.Alloc:
		if sv := SingleStore(a); sv != nil {
			return d.Of(sv)
		}
		if lit := d.structLit(a); lit != "" {
			return lit
		}
		if d.LoadVal != nil {
			if sv := d.LoadVal(x); sv != nil {
				return d.Of(sv)
			}
		}
		if !d.CallIdentity {
			// a variable assigned exactly once in this function whose address
			// escapes (e.g. c.requestID = &requestID): for display, its value
			if sv := onlyWholeStore(a); sv != nil {
				return d.Of(sv)
			}
		}
		if d.CallIdentity {
			// a reassigned local: two loads are different values
			return allocName(a) + "@" + x.Name()
		}
		return allocName(a)
	case *ssa.FieldAddr:
		if d.AllocAt != nil {
			// x.f of a struct local assigned as a whole on each branch: the field of
			// the value this path assigned
			var fields []string
			cur := ssa.Value(a)
			for {
				fa, ok := cur.(*ssa.FieldAddr)
				if !ok {
					break
				}
				fields = append([]string{fieldNameOf(fa.X.Type(), fa.Field)}, fields...)
				cur = fa.X
			}
			if al, ok := cur.(*ssa.Alloc); ok && !al.Heap && SingleStore(al) == nil {
				if sv := d.AllocAt(al, x); sv != nil {
					return d.Of(sv) + "." + strings.Join(fields, ".")
				}
			}
		}
		return d.Of(a)
	case *ssa.IndexAddr:
		return d.Of(a)
	case *ssa.FreeVar:
		if d.FreeVal != nil {
			if v, ok := d.FreeVal(a); ok {
				return v
			}
		}
		// captured variable: when the enclosing function assigns it exactly once
		// it is that value; otherwise it may be reassigned
		if b, ok := freeVarBinding(a).(*ssa.Alloc); ok {
			if sv := SingleStore(b); sv != nil {
				return d.Of(sv)
			}
		}
		if d.CallIdentity {
			return a.Name() + "@" + x.Name()
		}
		return a.Name()
	case *ssa.Global:
		return Short(globalName(a))
	}
	return "*" + d.Of(x.X)
}

// SingleStore returns the value stored to a local when there is exactly one
// store to the whole variable and no store through a derived address; else nil.
func SingleStore(a *ssa.Alloc) ssa.Value {
	var val ssa.Value
	n := 0
	for _, r := range *a.Referrers() {
		switch u := r.(type) {
		case *ssa.Store:
			if u.Addr == a {
				n++
				val = u.Val
			} else {
				return nil // address stored elsewhere: escapes
			}
		case *ssa.UnOp:
			// load
		case *ssa.FieldAddr, *ssa.IndexAddr:
			// partial writes possible through it
			for _, rr := range *u.(ssa.Value).Referrers() {
				if st, ok := rr.(*ssa.Store); ok && st.Addr == u.(ssa.Value) {
					return nil
				}
			}
		case *ssa.DebugRef:
		case *ssa.MakeClosure:
			// captured by a closure: the closure may write it
			if closureWrites(u, a) {
				return nil
			}
		case ssa.CallInstruction:
			// address passed to a call: may be written
			return nil
		default:
			return nil
		}
	}
	if n == 1 {
		return val
	}
	return nil
}

func closureWrites(mc *ssa.MakeClosure, a *ssa.Alloc) bool {
	fn := mc.Fn.(*ssa.Function)
	for i, b := range mc.Bindings {
		if b != a || i >= len(fn.FreeVars) {
			continue
		}
		fv := fn.FreeVars[i]
		for _, r := range *fv.Referrers() {
			switch u := r.(type) {
			case *ssa.Store:
				if u.Addr == fv {
					return true
				}
			case *ssa.UnOp:
			case *ssa.DebugRef:
			case *ssa.FieldAddr:
				// reading a field of the captured struct is not a write
				for _, rr := range *u.Referrers() {
					switch rr.(type) {
					case *ssa.UnOp, *ssa.DebugRef:
					default:
						return true
					}
				}
			default:
				return true
			}
		}
	}
	return false
}

// StructLitFields returns, for a local struct built field by field (a
// composite literal lowered by go/ssa), the stored value per field name; ok is
// false when the alloc is not such a literal.
func StructLitFields(a *ssa.Alloc) (map[string]ssa.Value, bool) {
	pt, ok := a.Type().Underlying().(*types.Pointer)
	if !ok {
		return nil, false
	}
	if _, ok := pt.Elem().Underlying().(*types.Struct); !ok {
		return nil, false
	}
	fields := map[string]ssa.Value{}
	var walk func(base ssa.Value, prefix string) bool
	walk = func(base ssa.Value, prefix string) bool {
		for _, r := range *base.Referrers() {
			switch u := r.(type) {
			case *ssa.FieldAddr:
				if u.X != base {
					return false
				}
				name := prefix + fieldNameOf(u.X.Type(), u.Field)
				for _, rr := range *u.Referrers() {
					switch s := rr.(type) {
					case *ssa.Store:
						if s.Addr != u {
							return false
						}
						if _, dup := fields[name]; dup {
							return false
						}
						fields[name] = s.Val
					case *ssa.UnOp, *ssa.DebugRef:
					case *ssa.FieldAddr:
						// nested literal: Outer{Inner: T{F: v}} is written through &x.Inner.F
					default:
						return false
					}
				}
				// nested field addresses
				nested := false
				for _, rr := range *u.Referrers() {
					if _, ok := rr.(*ssa.FieldAddr); ok {
						nested = true
					}
				}
				if nested && !walk(u, name+".") {
					return false
				}
			case *ssa.Store:
				if base == ssa.Value(a) && u.Addr == base {
					return false
				}
			case *ssa.UnOp, *ssa.DebugRef:
			default:
				// address escapes (call argument etc.): still a literal as far
				// as its initial fields are concerned
			}
		}
		return true
	}
	if !walk(a, "") || len(fields) == 0 {
		return nil, false
	}
	return fields, true
}

func (d *D) structLit(a *ssa.Alloc) string {
	if a.Heap && (a.Comment == "complit" || a.Comment == "new" || a.Comment == "" || capturedAndWritten(a)) {
		// a heap object (e.g. c := &T{...} later mutated field by field) is an
		// identity, not a value: do not expand it. A struct *variable* that lives on
		// the heap only because a closure reads it is still the literal it was given.
		return ""
	}
	if d.inLit[a] {
		return ""
	}
	fields, ok := StructLitFields(a)
	if !ok {
		return ""
	}
	if d.inLit == nil {
		d.inLit = map[*ssa.Alloc]bool{}
	}
	d.inLit[a] = true
	defer delete(d.inLit, a)
	var names []string
	for n := range fields {
		names = append(names, n)
	}
	sort.Strings(names)
	var parts []string
	for _, n := range names {
		parts = append(parts, n+":"+d.Of(fields[n]))
	}
	pt := a.Type().Underlying().(*types.Pointer)
	return typeShort(pt.Elem()) + "{" + strings.Join(parts, ",") + "}"
}

func (d *D) binop(x *ssa.BinOp) string {
	a, b := d.Of(x.X), d.Of(x.Y)
	switch x.Op {
	case token.EQL, token.NEQ:
		if a > b {
			a, b = b, a
		}
		if a == "nil" {
			a, b = b, a
		}
		return "(" + a + x.Op.String() + b + ")"
	case token.GTR:
		return "(" + b + "<" + a + ")"
	case token.GEQ:
		return "(" + b + "<=" + a + ")"
	case token.ADD, token.MUL, token.AND, token.OR, token.XOR:
		if bt, ok := x.X.Type().Underlying().(*types.Basic); ok && bt.Info()&types.IsString != 0 {
			break // string concatenation is not commutative
		}
		if isConst(x.X) && !isConst(x.Y) {
			a, b = b, a
		}
	}
	return "(" + a + x.Op.String() + b + ")"
}

func isConst(v ssa.Value) bool { _, ok := v.(*ssa.Const); return ok }

func (d *D) call(c *ssa.CallCommon) string {
	var args []string
	for _, a := range c.Args {
		if isContext(a.Type()) {
			args = append(args, "_")
			continue
		}
		args = append(args, d.Of(a))
	}
	if c.IsInvoke() {
		return d.Of(c.Value) + "." + c.Method.Name() + "(" + strings.Join(args, ",") + ")"
	}
	if sc := c.StaticCallee(); sc != nil {
		if sc.Signature.Recv() != nil && len(args) > 0 {
			return args[0] + "." + sc.Name() + "(" + strings.Join(args[1:], ",") + ")"
		}
		if sc.Pkg != nil {
			return Short(sc.Pkg.Pkg.Path()) + "." + sc.Name() + "(" + strings.Join(args, ",") + ")"
		}
		return ShortFn(sc) + "(" + strings.Join(args, ",") + ")"
	}
	return "dyn:" + d.Of(c.Value) + "(" + strings.Join(args, ",") + ")"
}

func isContext(t types.Type) bool {
	n, ok := t.(*types.Named)
	return ok && n.Obj().Pkg() != nil && n.Obj().Pkg().Path() == "context" && n.Obj().Name() == "Context"
}

func constStr(c *ssa.Const) string {
	if c.Value == nil {
		if c.IsNil() {
			return "nil"
		}
		return "zero:" + typeShort(c.Type())
	}
	switch c.Value.Kind() {
	case constant.Bool:
		return c.Value.String()
	case constant.String:
		return c.Value.ExactString()
	}
	// typed numeric constants: render named constants of module types by value
	return c.Value.ExactString() + ":" + typeShort(c.Type())
}

func globalName(g *ssa.Global) string {
	if g.Pkg != nil {
		return g.Pkg.Pkg.Path() + "." + g.Name()
	}
	return g.Name()
}

func allocName(a *ssa.Alloc) string {
	if a.Heap {
		pt, _ := a.Type().Underlying().(*types.Pointer)
		if pt != nil {
			return "new:" + typeShort(pt.Elem()) + "@" + a.Name()
		}
	}
	if a.Comment != "" {
		return "local:" + a.Comment
	}
	return "local:" + a.Name()
}

func typeShort(t types.Type) string {
	return Short(types.TypeString(t, nil))
}

// TypeShort is the exported form of typeShort.
func TypeShort(t types.Type) string { return typeShort(t) }

func fieldNameOf(t types.Type, i int) string {
	if p, ok := t.Underlying().(*types.Pointer); ok {
		t = p.Elem()
	}
	if s, ok := t.Underlying().(*types.Struct); ok && i < s.NumFields() {
		return s.Field(i).Name()
	}
	return fmt.Sprintf("f%d", i)
}

// FieldOwner returns (owner type short name, field name) for a FieldAddr.
func FieldOwner(fa *ssa.FieldAddr) (string, string) {
	t := fa.X.Type()
	if p, ok := t.Underlying().(*types.Pointer); ok {
		t = p.Elem()
	}
	return typeShort(t), fieldNameOf(fa.X.Type(), fa.Field)
}

// ConstName returns the name of the declared constant that c denotes (for
// integer constants of named types such as Status, EventCode, MessageType or
// graphsync.ResponseStatusCode), or "" when there is none. For types outside
// the module the name is qualified with the package name.
func (p *Prog) ConstName(c *ssa.Const) string {
	if c.Value == nil || (c.Value.Kind() != constant.Int && c.Value.Kind() != constant.String) {
		return ""
	}
	named, ok := c.Type().(*types.Named)
	if !ok || named.Obj().Pkg() == nil {
		return ""
	}
	pkg := named.Obj().Pkg()
	if p.constNames == nil {
		p.constNames = map[string]string{}
		p.constPkgs = map[*types.Package]bool{}
	}
	if !p.constPkgs[pkg] {
		p.constPkgs[pkg] = true
		sc := pkg.Scope()
		type ent struct {
			name string
			pos  token.Pos
		}
		best := map[string]ent{}
		for _, n := range sc.Names() {
			k, ok := sc.Lookup(n).(*types.Const)
			if !ok || (k.Val().Kind() != constant.Int && k.Val().Kind() != constant.String) {
				continue
			}
			nt, ok := k.Type().(*types.Named)
			if !ok {
				continue
			}
			key := types.TypeString(nt, nil) + "=" + k.Val().ExactString()
			if b, ok := best[key]; !ok || k.Pos() < b.pos {
				best[key] = ent{n, k.Pos()}
			}
		}
		for k, e := range best {
			if p.prodT[pkg] {
				p.constNames[k] = e.name
			} else {
				p.constNames[k] = pkg.Name() + "." + e.name
			}
		}
	}
	return p.constNames[types.TypeString(named, nil)+"="+c.Value.ExactString()]
}

// arrayLit renders the backing array of a variadic argument list / slice
// literal ([N]T alloc filled by constant-index stores) as [v0,v1,...].
func (d *D) arrayLit(a *ssa.Alloc) string {
	pt, ok := a.Type().Underlying().(*types.Pointer)
	if !ok {
		return ""
	}
	arr, ok := pt.Elem().Underlying().(*types.Array)
	if !ok || arr.Len() > 16 {
		return ""
	}
	elems := make([]string, arr.Len())
	for i := range elems {
		elems[i] = "_"
	}
	for _, r := range *a.Referrers() {
		ia, ok := r.(*ssa.IndexAddr)
		if !ok {
			continue
		}
		c, ok := ia.Index.(*ssa.Const)
		if !ok || c.Value == nil {
			return ""
		}
		idx, _ := constant.Int64Val(c.Value)
		if idx < 0 || int(idx) >= len(elems) {
			continue
		}
		direct := false
		for _, rr := range *ia.Referrers() {
			if st, ok := rr.(*ssa.Store); ok && st.Addr == ia {
				elems[idx] = d.Of(st.Val)
				direct = true
			}
		}
		if !direct {
			if nf := d.nestedFields(ia); nf != "" {
				elems[idx] = nf
			}
		}
	}
	return "[" + strings.Join(elems, ",") + "]"
}

// freeVarBinding returns what the enclosing function binds to a closure's
// free variable (the captured variable's cell, or the captured value).
func freeVarBinding(fv *ssa.FreeVar) ssa.Value {
	fn := fv.Parent()
	par := fn.Parent()
	if par == nil {
		return nil
	}
	idx := -1
	for i, f := range fn.FreeVars {
		if f == fv {
			idx = i
		}
	}
	if idx < 0 {
		return nil
	}
	for _, b := range par.Blocks {
		for _, ins := range b.Instrs {
			if mc, ok := ins.(*ssa.MakeClosure); ok && mc.Fn == fn && idx < len(mc.Bindings) {
				return mc.Bindings[idx]
			}
		}
	}
	return nil
}

// onlyWholeStore returns the value of the only store to the whole variable,
// regardless of how its address is used otherwise.
func onlyWholeStore(a *ssa.Alloc) ssa.Value {
	var val ssa.Value
	n := 0
	for _, r := range *a.Referrers() {
		if st, ok := r.(*ssa.Store); ok && st.Addr == a {
			n++
			val = st.Val
		}
	}
	if n == 1 {
		return val
	}
	return nil
}

// nestedFields renders the fields written through field addresses derived
// from base (an element or struct address filled in place) as {a:v,b.c:w}.
func (d *D) nestedFields(base ssa.Value) string {
	vals := map[string]string{}
	var walk func(b ssa.Value, prefix string)
	walk = func(b ssa.Value, prefix string) {
		for _, r := range *b.Referrers() {
			fa, ok := r.(*ssa.FieldAddr)
			if !ok || fa.X != b {
				continue
			}
			name := prefix + fieldNameOf(fa.X.Type(), fa.Field)
			for _, rr := range *fa.Referrers() {
				if st, ok := rr.(*ssa.Store); ok && st.Addr == fa {
					vals[name] = d.Of(st.Val)
				}
			}
			walk(fa, name+".")
		}
	}
	walk(base, "")
	if len(vals) == 0 {
		return ""
	}
	var names []string
	for n := range vals {
		names = append(names, n)
	}
	sort.Strings(names)
	var parts []string
	for _, n := range names {
		parts = append(parts, n+":"+vals[n])
	}
	return "{" + strings.Join(parts, ",") + "}"
}

//go:embed refparams.json
var refParamsJSON []byte

type refEntry struct {
	Params  []string `json:"params"`
	Results int      `json:"results"`
	Callees []string `json:"callees"`
}

var refProg map[string]refEntry

func loadRef() {
	if refProg == nil {
		refProg = map[string]refEntry{}
		_ = json.Unmarshal(refParamsJSON, &refProg)
	}
}

// IsNewFunc reports whether fn did not exist on the reference tree (the tree
// the rules were written against): a helper introduced by a later edit.
func IsNewFunc(fn *ssa.Function) bool {
	loadRef()
	if len(refProg) == 0 {
		return false
	}
	_, ok := refProg[fn.String()]
	return !ok
}

// SignatureChanged reports whether fn exists on the reference tree with a
// different number of parameters (rules written against its parameters cannot
// be evaluated).
func SignatureChanged(fn *ssa.Function) bool {
	loadRef()
	e, ok := refProg[fn.String()]
	return ok && (len(e.Params) != len(fn.Params) || e.Results != fn.Signature.Results().Len())
}

// RefCallees returns the module callees fn had on the reference tree.
func RefCallees(fnFull string) ([]string, bool) {
	loadRef()
	e, ok := refProg[fnFull]
	return e.Callees, ok
}

// RefFuncs lists the functions of the reference tree.
func RefFuncs() []string {
	loadRef()
	var out []string
	for k := range refProg {
		out = append(out, k)
	}
	sort.Strings(out)
	return out
}

// paramName returns the reference name of a parameter: the name it had, at
// that position, when the rules were written (frozen table refparams.json,
// regenerate with `dtcheck -dump params`). Rules are written against these
// names, so renaming a parameter or receiver in the repository does not change
// any descriptor. Functions not in the table use their current names.
func paramName(p *ssa.Parameter) string {
	loadRef()
	fn := p.Parent()
	if e, ok := refProg[fn.String()]; ok {
		names := e.Params
		for i, q := range fn.Params {
			if q == p && i < len(names) && len(names) == len(fn.Params) {
				return names[i]
			}
		}
	}
	return p.Name()
}

// ParamName is the reference name of a parameter (see paramName).
func ParamName(p *ssa.Parameter) string { return paramName(p) }

// inlinePure renders a call to a helper that did not exist on the reference
// tree and consists of a single straight-line block without side effects
// (a predicate such as isInitiator(chid)) as the expression it returns, in
// the caller's terms.
func (d *D) inlinePure(c *ssa.Call) (string, bool) {
	h := c.Common().StaticCallee()
	if h == nil || len(h.Blocks) != 1 || h.Parent() != nil || !d.P.InProd(h) || (!IsNewFunc(h) && !d.Deep) || d.depth > maxDescDepth-2 {
		return "", false
	}
	var ret *ssa.Return
	for _, ins := range h.Blocks[0].Instrs {
		switch x := ins.(type) {
		case *ssa.Return:
			ret = x
		case *ssa.Store:
			// the spill of a value parameter into a non-escaping local is not an effect
			// (nor is building a composite literal in one)
			addr := x.Addr
			for {
				if fa, ok := addr.(*ssa.FieldAddr); ok {
					addr = fa.X
					continue
				}
				if ia, ok := addr.(*ssa.IndexAddr); ok {
					addr = ia.X
					continue
				}
				break
			}
			if a, ok := addr.(*ssa.Alloc); !ok || a.Heap {
				return "", false
			}
		case *ssa.MapUpdate, *ssa.Send, *ssa.Go, *ssa.Defer, *ssa.Panic:
			return "", false
		case *ssa.Call:
			// only calls that themselves read (accessors / nested new predicates) are fine;
			// be conservative: static callees must be new pure helpers or interface/accessor invokes
			if !x.Common().IsInvoke() {
				if sc := x.Common().StaticCallee(); sc == nil || len(sc.Blocks) > 3 {
					return "", false
				}
			}
		}
	}
	if ret == nil || len(ret.Results) != 1 {
		return "", false
	}
	sub := &D{P: d.P, CallIdentity: d.CallIdentity, Deep: d.Deep, depth: d.depth + 1, Subst: map[*ssa.Parameter]string{}}
	for i, q := range h.Params {
		if i < len(c.Common().Args) {
			sub.Subst[q] = d.Of(c.Common().Args[i])
			if k, ok := c.Common().Args[i].(*ssa.Const); ok {
				if sub.SubstVal == nil {
					sub.SubstVal = map[*ssa.Parameter]*ssa.Const{}
				}
				sub.SubstVal[q] = k
			}
		}
	}
	return sub.Of(ret.Results[0]), true
}

// inlinePureCond is inlinePure for branch conditions: it returns the callee's
// returned value and a descriptor context in which to normalise it.
func (d *D) inlinePureCond(c *ssa.Call) (ssa.Value, *D, bool) {
	if _, ok := d.inlinePure(c); !ok {
		return nil, nil, false
	}
	h := c.Common().StaticCallee()
	var ret *ssa.Return
	for _, ins := range h.Blocks[0].Instrs {
		if r, ok := ins.(*ssa.Return); ok {
			ret = r
		}
	}
	sub := &D{P: d.P, CallIdentity: d.CallIdentity, Deep: d.Deep, depth: d.depth + 1, Subst: map[*ssa.Parameter]string{}}
	for i, q := range h.Params {
		if i < len(c.Common().Args) {
			sub.Subst[q] = d.Of(c.Common().Args[i])
			if k, ok := c.Common().Args[i].(*ssa.Const); ok {
				if sub.SubstVal == nil {
					sub.SubstVal = map[*ssa.Parameter]*ssa.Const{}
				}
				sub.SubstVal[q] = k
			}
		}
	}
	return ret.Results[0], sub, true
}

// foldConv folds the conversion of an integer constant (possibly a phi
// resolved on the path) to another integer type, as the compiler folds
// uint64(types.NewMessage).
func (d *D) foldConv(src ssa.Value, to types.Type) (string, bool) {
	for i := 0; i < 4; i++ {
		if ph, ok := src.(*ssa.Phi); ok && d.PhiVal != nil {
			if r := d.PhiVal(ph); r != nil {
				src = r
				continue
			}
		}
		break
	}
	if q, isParam := src.(*ssa.Parameter); isParam && d.SubstVal != nil {
		if k := d.SubstVal[q]; k != nil {
			src = k
		}
	}
	c, ok := src.(*ssa.Const)
	if !ok || c.Value == nil || c.Value.Kind() != constant.Int {
		return "", false
	}
	b, ok := to.Underlying().(*types.Basic)
	if !ok || b.Info()&types.IsInteger == 0 {
		return "", false
	}
	folded := ssa.NewConst(c.Value, to)
	if n := d.P.ConstName(folded); n != "" {
		return n, true
	}
	return constStr(folded), true
}

// projectField renders base.field; when base is itself a rendered struct
// literal T{f1:v1,f2:v2} (a small carrier struct built by a helper that was
// walked through), the field's value is taken out of the literal.
func projectField(base, field string) string {
	if strings.HasSuffix(base, "}") {
		if open := topLevelOpenBrace(base); open > 0 {
			body := base[open+1 : len(base)-1]
			depth, start := 0, 0
			inStr := false
			for i := 0; i <= len(body); i++ {
				if i < len(body) {
					c := body[i]
					if inStr {
						if c == '\\' {
							i++
						} else if c == '"' {
							inStr = false
						}
						continue
					}
					switch c {
					case '"':
						inStr = true
						continue
					case '(', '[', '{':
						depth++
						continue
					case ')', ']', '}':
						depth--
						continue
					}
					if c != ',' || depth != 0 {
						continue
					}
				}
				item := body[start:i]
				start = i + 1
				if strings.HasPrefix(item, field+":") {
					return item[len(field)+1:]
				}
			}
		}
	}
	return base + "." + field
}

// topLevelOpenBrace: for "pkg.T{...}" with balanced braces ending at the last
// character, the index of the brace that opens the literal (the type part has
// no brackets); -1 otherwise.
func topLevelOpenBrace(s string) int {
	i := strings.IndexByte(s, '{')
	if i <= 0 || strings.ContainsAny(s[:i], "([ ") {
		return -1
	}
	depth := 0
	inStr := false
	for j := i; j < len(s); j++ {
		c := s[j]
		if inStr {
			if c == '\\' {
				j++
			} else if c == '"' {
				inStr = false
			}
			continue
		}
		switch c {
		case '"':
			inStr = true
		case '{', '(', '[':
			depth++
		case '}', ')', ']':
			depth--
			if depth == 0 && j != len(s)-1 {
				return -1
			}
		}
	}
	if depth != 0 {
		return -1
	}
	return i
}

// capturedAndWritten: some closure capturing the variable may write it, or its
// address is passed to a call.
func capturedAndWritten(a *ssa.Alloc) bool {
	for _, r := range *a.Referrers() {
		switch u := r.(type) {
		case *ssa.MakeClosure:
			if closureWrites(u, a) {
				return true
			}
		case ssa.CallInstruction:
			return true
		case *ssa.Store:
			if u.Val == ssa.Value(a) {
				return true // address stored somewhere
			}
		}
	}
	return false
}
