// Package core holds the resolved-program model shared by all rules: loader,
// SSA program, value descriptors, guard facts, path enumeration, call matching,
// obligations and evidence.
package core

import (
	"fmt"
	"go/ast"
	"go/token"
	"go/types"
	"os"
	"os/exec"
	"path/filepath"
	"runtime"
	"sort"
	"strings"
	"time"

	"golang.org/x/tools/go/packages"
	"golang.org/x/tools/go/ssa"
	"golang.org/x/tools/go/ssa/ssautil"
)

// Mod is the module path of the library under analysis.
const Mod = "github.com/filecoin-project/go-data-transfer/v2"

// ProdPatterns is the production package set (DESIGN §3 step 1).
var ProdPatterns = []string{".", "./channelmonitor", "./channels/...", "./channelsubscriptions", "./impl",
	"./message/...", "./network", "./registry", "./tracing", "./transport/graphsync",
	"./transport/graphsync/extension", "./transportoptions"}

// ExcludedDirs are module directories that are deliberately not analysed
// (test doubles, benchmarks, integration tests).
var ExcludedDirs = map[string]string{
	"testutil":                        "test doubles",
	"benchmarks":                      "separate module (benchmarks)",
	"itest":                           "integration tests only",
	"transport/graphsync/testharness": "test harness",
	"scripts":                         "shell scripts",
}

// MinProdPackages is the floor below which a load is considered incomplete.
const MinProdPackages = 16

type Prog struct {
	// ForceInline: existing helpers a rule asks Paths to walk through (set by the
	// rule around its call to Paths).
	ForceInline map[*ssa.Function]bool
	Dir         string
	Fset        *token.FileSet
	Pkgs        []*packages.Package
	ByRel       map[string]*packages.Package // "" (root), "impl", "channels", ...
	SSA         *ssa.Program
	SSAByRel    map[string]*ssa.Package
	prodT       map[*types.Package]bool
	AllFuncs    map[*ssa.Function]bool
	Prod        []*ssa.Function // production functions with bodies, sorted by name
	LoadS       float64
	SSAS        float64
	cg          *CallGraph
	facts       map[*ssa.Function]map[*ssa.BasicBlock][]Fact
	Overlay     map[string][]byte
	GoBin       string
	constNames  map[string]string
	constPkgs   map[*types.Package]bool
}

// goEnv picks a go toolchain consistent with the one this binary was built
// with and returns the environment for go/packages.
func goEnv() ([]string, string, error) {
	want := runtime.Version() // e.g. go1.24.0
	var cands []string
	if p, err := exec.LookPath("go"); err == nil {
		cands = append(cands, p)
	}
	home, _ := os.UserHomeDir()
	modcache := filepath.Join(home, "go", "pkg", "mod")
	if mc := os.Getenv("GOMODCACHE"); mc != "" {
		modcache = mc
	}
	cands = append(cands,
		filepath.Join(modcache, "golang.org", "toolchain@v0.0.1-"+want+".linux-amd64", "bin", "go"),
		"/opt/veriftools/"+want+"/bin/go",
		"/usr/local/bin/"+want,
	)
	base := []string{}
	for _, kv := range os.Environ() {
		k := kv[:strings.IndexByte(kv+"=", '=')]
		switch k {
		case "GOFLAGS", "GOPROXY", "GOWORK", "GOTOOLCHAIN", "GOROOT", "GOSUMDB", "GOARCH", "GOOS":
			continue
		}
		base = append(base, kv)
	}
	base = append(base, "GOFLAGS=-mod=mod", "GOPROXY=off", "GOWORK=off", "GOTOOLCHAIN=local", "GOSUMDB=off")
	for _, c := range cands {
		if _, err := os.Stat(c); err != nil {
			continue
		}
		cmd := exec.Command(c, "env", "GOVERSION")
		cmd.Env = base
		out, err := cmd.Output()
		if err != nil {
			continue
		}
		if strings.TrimSpace(string(out)) != want {
			continue
		}
		dir := filepath.Dir(c)
		// make "go" resolve to this binary
		if filepath.Base(c) != "go" {
			// e.g. /usr/local/bin/go1.26.8 wrapper: find its GOROOT
			cmd := exec.Command(c, "env", "GOROOT")
			cmd.Env = base
			o2, err := cmd.Output()
			if err != nil {
				continue
			}
			dir = filepath.Join(strings.TrimSpace(string(o2)), "bin")
			c = filepath.Join(dir, "go")
		}
		env := append([]string{}, base...)
		for i, kv := range env {
			if strings.HasPrefix(kv, "PATH=") {
				env[i] = "PATH=" + dir + string(os.PathListSeparator) + kv[5:]
			}
		}
		// go/packages resolves "go" through this process's PATH
		os.Setenv("PATH", dir+string(os.PathListSeparator)+os.Getenv("PATH"))
		return env, c, nil
	}
	return nil, "", fmt.Errorf("no go toolchain matching %s found (tried %v)", want, cands)
}

// Load loads the production package set of the module at dir and builds SSA.
func Load(dir string, overlay map[string][]byte, goarch string) (*Prog, error) {
	t0 := time.Now()
	env, gobin, err := goEnv()
	if err != nil {
		return nil, err
	}
	if goarch != "" {
		env = append(env, "GOARCH="+goarch)
	}
	cfg := &packages.Config{Mode: packages.LoadAllSyntax, Dir: dir, Env: env, Overlay: overlay}
	pkgs, err := packages.Load(cfg, ProdPatterns...)
	if err != nil {
		return nil, fmt.Errorf("packages.Load: %w", err)
	}
	var errs []string
	packages.Visit(pkgs, nil, func(p *packages.Package) {
		for _, e := range p.Errors {
			errs = append(errs, e.Error())
		}
	})
	if len(errs) > 0 {
		sort.Strings(errs)
		if len(errs) > 10 {
			errs = errs[:10]
		}
		return nil, fmt.Errorf("load/type errors: %s", strings.Join(errs, "; "))
	}
	p := &Prog{Dir: dir, ByRel: map[string]*packages.Package{}, SSAByRel: map[string]*ssa.Package{},
		prodT: map[*types.Package]bool{}, Overlay: overlay, GoBin: gobin,
		facts: map[*ssa.Function]map[*ssa.BasicBlock][]Fact{}}
	sort.Slice(pkgs, func(i, j int) bool { return pkgs[i].PkgPath < pkgs[j].PkgPath })
	for _, pk := range pkgs {
		if pk.PkgPath != Mod && !strings.HasPrefix(pk.PkgPath, Mod+"/") {
			return nil, fmt.Errorf("unexpected package %s", pk.PkgPath)
		}
		rel := strings.TrimPrefix(strings.TrimPrefix(pk.PkgPath, Mod), "/")
		p.ByRel[rel] = pk
		p.Pkgs = append(p.Pkgs, pk)
		p.prodT[pk.Types] = true
		p.Fset = pk.Fset
	}
	if len(p.Pkgs) < MinProdPackages {
		return nil, fmt.Errorf("only %d production packages loaded, expected at least %d", len(p.Pkgs), MinProdPackages)
	}
	if err := p.checkNoNewPackages(); err != nil {
		return nil, err
	}
	p.LoadS = time.Since(t0).Seconds()
	t1 := time.Now()
	prog, _ := ssautil.AllPackages(pkgs, ssa.InstantiateGenerics)
	prog.Build()
	p.SSA = prog
	for rel, pk := range p.ByRel {
		p.SSAByRel[rel] = prog.Package(pk.Types)
	}
	p.AllFuncs = ssautil.AllFunctions(prog)
	for fn := range p.AllFuncs {
		if p.InProd(fn) && len(fn.Blocks) > 0 {
			p.Prod = append(p.Prod, fn)
		}
	}
	sort.Slice(p.Prod, func(i, j int) bool {
		a, b := p.Prod[i].String(), p.Prod[j].String()
		if a != b {
			return a < b
		}
		return p.Prod[i].Pos() < p.Prod[j].Pos()
	})
	p.SSAS = time.Since(t1).Seconds()
	return p, nil
}

// checkNoNewPackages fails when the module has a non-test Go package directory
// that is neither loaded nor in the explicit exclusion list.
func (p *Prog) checkNoNewPackages() error {
	loaded := map[string]bool{}
	for rel := range p.ByRel {
		loaded[rel] = true
	}
	var missing []string
	err := filepath.Walk(p.Dir, func(path string, info os.FileInfo, err error) error {
		if err != nil {
			return nil
		}
		rel, _ := filepath.Rel(p.Dir, path)
		if info.IsDir() {
			if rel != "." && (strings.HasPrefix(info.Name(), ".") || strings.HasPrefix(info.Name(), "_")) {
				return filepath.SkipDir
			}
			for ex := range ExcludedDirs {
				if rel == ex {
					return filepath.SkipDir
				}
			}
			return nil
		}
		if !strings.HasSuffix(path, ".go") || strings.HasSuffix(path, "_test.go") {
			return nil
		}
		d := filepath.Dir(rel)
		if d == "." {
			d = ""
		}
		if !loaded[d] {
			missing = append(missing, d)
			loaded[d] = true
		}
		return nil
	})
	if err != nil {
		return err
	}
	if len(missing) > 0 {
		return fmt.Errorf("module has Go package directories that are neither analysed nor excluded: %v", missing)
	}
	return nil
}

// InProd reports whether fn belongs to the production package set.
func (p *Prog) InProd(f *ssa.Function) bool {
	for f != nil {
		if f.Pkg != nil {
			return p.prodT[f.Pkg.Pkg]
		}
		if f.Parent() != nil {
			f = f.Parent()
			continue
		}
		if o := f.Object(); o != nil && o.Pkg() != nil {
			return p.prodT[o.Pkg()]
		}
		if f.Origin() != nil && f.Origin() != f {
			f = f.Origin()
			continue
		}
		return false
	}
	return false
}

func (p *Prog) IsProdPkg(t *types.Package) bool { return p.prodT[t] }

// Pos renders a position relative to the repo directory.
func (p *Prog) Pos(pos token.Pos) string {
	if !pos.IsValid() {
		return "-"
	}
	ps := p.Fset.Position(pos)
	rel, err := filepath.Rel(p.Dir, ps.Filename)
	if err != nil {
		rel = ps.Filename
	}
	return fmt.Sprintf("%s:%d", rel, ps.Line)
}

// InstrPos gives the best position for an instruction (falls back to the
// enclosing function).
func (p *Prog) InstrPos(ins ssa.Instruction) string {
	if ins.Pos().IsValid() {
		return p.Pos(ins.Pos())
	}
	if v, ok := ins.(ssa.CallInstruction); ok {
		if v.Common().Pos().IsValid() {
			return p.Pos(v.Common().Pos())
		}
	}
	return p.Pos(ins.Parent().Pos()) + "(" + ins.Parent().Name() + ")"
}

// Func resolves a package-level function or method. rel is the package path
// relative to the module ("" for the root); recv is the receiver's named type
// ("" for a plain function); name the function name. Closures are addressed
// as name$1 etc.
func (p *Prog) Func(rel, recv, name string) *ssa.Function {
	sp := p.SSAByRel[rel]
	if sp == nil {
		return nil
	}
	base, anon := name, ""
	if i := strings.IndexByte(name, '$'); i >= 0 {
		base, anon = name[:i], name[i:]
	}
	var fn *ssa.Function
	if recv == "" {
		fn = sp.Func(base)
	} else {
		tn, _ := sp.Pkg.Scope().Lookup(recv).(*types.TypeName)
		if tn == nil {
			return nil
		}
		for _, T := range []types.Type{types.NewPointer(tn.Type()), tn.Type()} {
			ms := p.SSA.MethodSets.MethodSet(T)
			if sel := ms.Lookup(sp.Pkg, base); sel != nil {
				if f := p.SSA.MethodValue(sel); f != nil && f.Synthetic == "" {
					fn = f
					break
				}
			}
		}
	}
	if fn == nil {
		return nil
	}
	for anon != "" {
		// $N[$M...]
		rest := anon[1:]
		idx := rest
		next := ""
		if j := strings.IndexByte(rest, '$'); j >= 0 {
			idx, next = rest[:j], rest[j:]
		}
		var n int
		fmt.Sscanf(idx, "%d", &n)
		if n < 1 || n > len(fn.AnonFuncs) {
			return nil
		}
		fn = fn.AnonFuncs[n-1]
		anon = next
	}
	return fn
}

// FileOf returns the syntax tree containing pos.
func (p *Prog) FileOf(pos token.Pos) (*packages.Package, *ast.File) {
	for _, pk := range p.Pkgs {
		for _, f := range pk.Syntax {
			if f.Pos() <= pos && pos <= f.End() {
				return pk, f
			}
		}
	}
	return nil, nil
}

// ShortFn renders a function name without the module prefix.
func ShortFn(fn *ssa.Function) string {
	if fn == nil {
		return "<nil>"
	}
	return Short(fn.String())
}

// Short strips the module path from a rendered name.
func Short(s string) string {
	s = strings.ReplaceAll(s, Mod+"/", "")
	s = strings.ReplaceAll(s, Mod+".", "datatransfer.")
	s = strings.ReplaceAll(s, Mod, "datatransfer")
	return s
}
