package core

import (
	"go/types"
	"sort"
	"strings"

	"golang.org/x/tools/go/callgraph"
	"golang.org/x/tools/go/callgraph/cha"
	"golang.org/x/tools/go/callgraph/vta"
	"golang.org/x/tools/go/ssa"
)

// CalleeName names what a call site calls, from resolved information only:
// a static callee renders as its SSA name without the module prefix
// ("(*impl.manager).acceptRequest"), an interface invoke as
// "(datatransfer.Transport).OpenChannel", a bound-method or closure value as
// its function, anything else as "dyn:<descriptor>".
func (p *Prog) CalleeName(c *ssa.CallCommon) string {
	if c.IsInvoke() {
		return Short(c.Method.FullName())
	}
	if sc := c.StaticCallee(); sc != nil {
		return ShortFn(unwrap(sc))
	}
	return "dyn:" + p.D().Of(c.Value)
}

// Unwrap is unwrap, exported.
func Unwrap(fn *ssa.Function) *ssa.Function { return unwrap(fn) }

// unwrap maps synthetic wrappers (bound methods, thunks) to the declared method.
func unwrap(fn *ssa.Function) *ssa.Function {
	if fn.Synthetic != "" && fn.Object() != nil && fn.Pkg == nil {
		if prog := fn.Prog; prog != nil {
			if f, ok := fn.Object().(*types.Func); ok {
				if d := prog.FuncValue(f); d != nil {
					return d
				}
			}
		}
	}
	return fn
}

// CallSites returns the call instructions (call, defer, go) in fn, in block order.
func CallSites(fn *ssa.Function) []ssa.CallInstruction {
	var out []ssa.CallInstruction
	for _, b := range fn.Blocks {
		for _, ins := range b.Instrs {
			if ci, ok := ins.(ssa.CallInstruction); ok {
				out = append(out, ci)
			}
		}
	}
	return out
}

// CallsTo returns the call sites in fn whose callee name is one of names.
// When deep is true, closures defined in fn are searched too.
func (p *Prog) CallsTo(fn *ssa.Function, deep bool, names ...string) []ssa.CallInstruction {
	want := map[string]bool{}
	for _, n := range names {
		want[n] = true
	}
	var out []ssa.CallInstruction
	var visit func(f *ssa.Function)
	visit = func(f *ssa.Function) {
		for _, ci := range CallSites(f) {
			if want[p.CalleeName(ci.Common())] {
				out = append(out, ci)
			}
		}
		if deep {
			for _, a := range f.AnonFuncs {
				visit(a)
			}
		}
	}
	visit(fn)
	return out
}

// Is builds an event matcher on callee names.
func (p *Prog) Is(names ...string) func(Ev) bool {
	want := map[string]bool{}
	for _, n := range names {
		want[n] = true
	}
	return func(e Ev) bool { return want[p.CalleeName(e.C)] }
}

// Callers returns every production function (closures included) with a call
// site whose callee name is name, with the sites.
func (p *Prog) Callers(name string) map[*ssa.Function][]ssa.CallInstruction {
	out := map[*ssa.Function][]ssa.CallInstruction{}
	for _, fn := range p.Prod {
		for _, ci := range CallSites(fn) {
			if p.CalleeName(ci.Common()) == name {
				out[fn] = append(out[fn], ci)
			}
		}
	}
	return out
}

// TopLevel returns the outermost declared function enclosing fn (closures
// are attributed to the function that defines them).
func TopLevel(fn *ssa.Function) *ssa.Function {
	for fn.Parent() != nil {
		fn = fn.Parent()
	}
	return fn
}

// Arg returns the i-th argument of a call in source terms: for method calls
// (static, with receiver) index 0 is the first declared parameter, the receiver
// being index -1.
func Arg(c *ssa.CallCommon, i int) ssa.Value {
	off := 0
	if !c.IsInvoke() {
		if sc := c.StaticCallee(); sc != nil && sc.Signature.Recv() != nil {
			off = 1
		} else if sc == nil {
			off = 0
		}
	}
	if i == -1 {
		if c.IsInvoke() {
			return c.Value
		}
		if off == 1 {
			return c.Args[0]
		}
		return nil
	}
	if i+off < len(c.Args) {
		return c.Args[i+off]
	}
	return nil
}

// ---------------------------------------------------------------------------
// Completed call graph (DESIGN §3 step 2)

type Edge struct {
	Site   ssa.Instruction
	Callee *ssa.Function
	Kind   string // call | defer | go | errgroup | synthetic
	Async  bool
}

type CallGraph struct {
	P       *Prog
	Out     map[*ssa.Function][]Edge
	vta     *callgraph.Graph
	addrTkn []*ssa.Function
	// Unresolved records dynamic call sites inside production code for which no
	// production callee was found (reported in evidence).
	Unresolved []string
	VTAS       float64
}

// userFuncTypes are callback types supplied by client code: never bound by signature.
var userFuncTypes = map[string]bool{
	Mod + ".Subscriber":          true,
	Mod + ".ReadyFunc":           true,
	Mod + ".TransportConfigurer": true,
}

// userInterfaces are interfaces implemented by client code.
var userInterfaces = map[string]bool{
	Mod + ".RequestValidator": true,
}

// CG builds (once) the completed call graph over production functions.
func (p *Prog) CG() *CallGraph {
	if p.cg != nil {
		return p.cg
	}
	g := &CallGraph{P: p, Out: map[*ssa.Function][]Edge{}}
	g.vta = vta.CallGraph(p.AllFuncs, cha.CallGraph(p.SSA))
	// address-taken production functions
	seen := map[*ssa.Function]bool{}
	for _, f := range p.Prod {
		for _, b := range f.Blocks {
			for _, ins := range b.Instrs {
				var ops [24]*ssa.Value
				for _, op := range ins.Operands(ops[:0]) {
					if op == nil || *op == nil {
						continue
					}
					var target *ssa.Function
					switch v := (*op).(type) {
					case *ssa.Function:
						target = v
					case *ssa.MakeClosure:
						target = v.Fn.(*ssa.Function)
					}
					if target == nil || !p.InProd(target) || seen[target] {
						continue
					}
					if ci, ok := ins.(ssa.CallInstruction); ok && ci.Common().Value == *op && !ci.Common().IsInvoke() {
						continue
					}
					seen[target] = true
					g.addrTkn = append(g.addrTkn, target)
				}
			}
		}
	}
	sort.Slice(g.addrTkn, func(i, j int) bool { return g.addrTkn[i].String() < g.addrTkn[j].String() })
	for _, f := range p.Prod {
		for _, b := range f.Blocks {
			for _, ins := range b.Instrs {
				ci, ok := ins.(ssa.CallInstruction)
				if !ok {
					continue
				}
				kind := "call"
				async := false
				switch ins.(type) {
				case *ssa.Defer:
					kind = "defer"
				case *ssa.Go:
					kind = "go"
					async = true
				}
				cs := g.calleesOf(f, ci)
				// errgroup.Group.Go(closure): joined by Wait in the same function
				if sc := ci.Common().StaticCallee(); sc != nil && sc.String() == "(*golang.org/x/sync/errgroup.Group).Go" && len(ci.Common().Args) == 2 {
					if mc, ok := ci.Common().Args[1].(*ssa.MakeClosure); ok {
						g.Out[f] = append(g.Out[f], Edge{ins, mc.Fn.(*ssa.Function), "errgroup", !callsWait(f)})
					}
				}
				for _, c := range cs {
					if !p.InProd(c) {
						continue
					}
					g.Out[f] = append(g.Out[f], Edge{ins, c, kind, async})
				}
			}
		}
	}
	p.cg = g
	return g
}

func callsWait(f *ssa.Function) bool {
	for _, ci := range CallSites(f) {
		if sc := ci.Common().StaticCallee(); sc != nil && sc.String() == "(*golang.org/x/sync/errgroup.Group).Wait" {
			return true
		}
	}
	return false
}

func (g *CallGraph) calleesOf(fn *ssa.Function, site ssa.CallInstruction) []*ssa.Function {
	p := g.P
	c := site.Common()
	if sc := c.StaticCallee(); sc != nil {
		return []*ssa.Function{unwrap(sc)}
	}
	if c.IsInvoke() {
		it := c.Value.Type()
		named, _ := it.(*types.Named)
		if named != nil && named.Obj().Pkg() != nil && p.prodT[named.Obj().Pkg()] {
			if userInterfaces[named.Obj().Pkg().Path()+"."+named.Obj().Name()] {
				return nil
			}
			// module-interface binding: every production type implementing it
			iface, _ := it.Underlying().(*types.Interface)
			var out []*ssa.Function
			if iface != nil {
				for _, pk := range p.Pkgs {
					sc := pk.Types.Scope()
					for _, name := range sc.Names() {
						tn, ok := sc.Lookup(name).(*types.TypeName)
						if !ok || types.IsInterface(tn.Type()) {
							continue
						}
						for _, T := range []types.Type{tn.Type(), types.NewPointer(tn.Type())} {
							if types.Implements(T, iface) {
								if sel := p.SSA.MethodSets.MethodSet(T).Lookup(c.Method.Pkg(), c.Method.Name()); sel != nil {
									if mf := p.SSA.MethodValue(sel); mf != nil {
										out = append(out, unwrap(mf))
									}
								}
								break
							}
						}
					}
				}
			}
			if len(out) > 0 {
				return out
			}
		}
	} else {
		if userFuncTypes[types.TypeString(c.Value.Type(), nil)] {
			return nil
		}
	}
	var out []*ssa.Function
	if n := g.vta.Nodes[fn]; n != nil {
		for _, e := range n.Out {
			if e.Site == site && e.Callee.Func != nil {
				out = append(out, unwrap(e.Callee.Func))
			}
		}
	}
	if len(out) > 0 || c.IsInvoke() {
		return out
	}
	// function-value fallback: address-taken production functions of identical signature
	sig, _ := c.Value.Type().Underlying().(*types.Signature)
	if sig == nil {
		return nil
	}
	for _, f := range g.addrTkn {
		fs := f.Signature
		if f.Signature.Recv() != nil {
			continue
		}
		if types.Identical(fs, sig) {
			out = append(out, f)
		}
	}
	if len(out) == 0 {
		g.Unresolved = append(g.Unresolved, p.InstrPos(site)+" "+p.CalleeName(c))
	}
	return out
}

// AddSynthetic adds an edge that is not visible to SSA (FSM callbacks).
func (g *CallGraph) AddSynthetic(from, to *ssa.Function, async bool) {
	if from == nil || to == nil {
		return
	}
	g.Out[from] = append(g.Out[from], Edge{nil, to, "synthetic", async})
}

// Reach returns the functions reachable from the roots. When syncOnly is
// true, asynchronous edges (go statements, asynchronous synthetic edges) are
// not followed. The result maps each reached function to its predecessor on
// one shortest path (roots map to nil).
func (g *CallGraph) Reach(roots []*ssa.Function, syncOnly bool) map[*ssa.Function]*ssa.Function {
	par := map[*ssa.Function]*ssa.Function{}
	var q []*ssa.Function
	for _, r := range roots {
		if r == nil {
			continue
		}
		if _, ok := par[r]; !ok {
			par[r] = nil
			q = append(q, r)
		}
	}
	for len(q) > 0 {
		f := q[0]
		q = q[1:]
		for _, e := range g.Out[f] {
			if syncOnly && e.Async {
				continue
			}
			if _, ok := par[e.Callee]; !ok {
				par[e.Callee] = f
				q = append(q, e.Callee)
			}
		}
		// closures defined in f are reached when f runs them; they are bound
		// through MakeClosure call edges already, but deferred/go closures too.
	}
	return par
}

// Chain renders the path root → … → fn found by Reach.
func Chain(par map[*ssa.Function]*ssa.Function, fn *ssa.Function) string {
	var parts []string
	for f := fn; f != nil; f = par[f] {
		parts = append([]string{ShortFn(f)}, parts...)
		if len(parts) > 40 {
			break
		}
	}
	return strings.Join(parts, " → ")
}
