#!/bin/sh
# Builds bin/dtcheck offline from /verif/checker with a toolchain that can also
# load /repo (go >= 1.24). Tries the default go (which selects the cached
# go1.24.0 toolchain from go.mod), then go1.26.8 with GOTOOLCHAIN=local.
set -e
cd "$(dirname "$0")/checker"
mkdir -p ../bin
unset GOWORK GOROOT
export GOFLAGS=-mod=mod GOPROXY=off
if env -u GOSUMDB -u GOTOOLCHAIN go build -o ../bin/dtcheck ./cmd/dtcheck 2>/tmp/dtcheck-build.$$.log; then
  rm -f /tmp/dtcheck-build.$$.log; echo "built bin/dtcheck with $(env -u GOSUMDB -u GOTOOLCHAIN go version)"; exit 0
fi
cat /tmp/dtcheck-build.$$.log >&2; rm -f /tmp/dtcheck-build.$$.log
TC="$HOME/go/pkg/mod/golang.org/toolchain@v0.0.1-go1.24.0.linux-amd64/bin/go"
if [ -x "$TC" ] && GOTOOLCHAIN=local GOSUMDB=off "$TC" build -o ../bin/dtcheck ./cmd/dtcheck; then
  echo "built bin/dtcheck with cached go1.24.0"; exit 0
fi
GOTOOLCHAIN=local GOSUMDB=off go1.26.8 build -o ../bin/dtcheck ./cmd/dtcheck
echo "built bin/dtcheck with go1.26.8"
