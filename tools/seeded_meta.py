#!/usr/bin/env python3
"""Writes /verif/seeded/<id>/meta.json from the table below + confirm.json + detect.json,
and prints the detection table (markdown) used in DESIGN.md."""
import json, os, glob
root = os.path.dirname(os.path.dirname(os.path.abspath(__file__)))
T = {
 "C01a": ("C01", "transport/graphsync gsIncomingBlockHook: unique flag from BlockSize() instead of BlockSizeOnWire()", "a payload DAG in which one block occurs at several positions (receiver's Received > sender's Queued); fixture files have no repeats"),
 "C02a": ("C02", "migrations.MigrateChannelState2To3: paused-status test turned into a range with an off-by-one lower bound", "reopening a v2 datastore that holds a Cancelled channel (it comes back as Ongoing and is no longer absorbing)"),
 "C02b": ("C02", "impl/receiver.go ReceiveRestartExistingChannelRequest: IsChannelTerminated swapped for IsChannelCleaningUp", "a restart-existing-channel message from the counterparty for a channel that already terminated locally"),
 "C03a": ("C03", "channels_fsm.go: ResumeInitiator From(ResponderCompleted).To(Completing)", "initiator pauses in Ongoing, responder's un-paused Complete arrives during the pause, initiator resumes before its transport finished"),
 "C03b": ("C03", "channel_state.go ResponderPaused(): Finalizing counts only when RequiresFinalization is still set", "responder in Finalizing whose stored RequiresFinalization was cleared by a validation update; the next update never releases it"),
 "C04a": ("C04", "impl/receiving_requests.go requestError: stayPaused test moved before the rejection test", "a validator result with Accepted=false and ForcePause=true (rejected request keeps a paused transport channel)"),
 "C04b": ("C04", "impl/receiving_requests.go acceptRequest: Selector() error overwritten by TypedVoucher() before it is checked", "a new request whose selector field is null, with a validator that accepts"),
 "C05a": ("C05", "impl/restart.go validateRestartRequest compares with LastVoucher() instead of Voucher()", "a channel that received a later voucher, then a restart request (legitimate restart refused, forged one accepted)"),
 "C05b": ("C05", "impl/receiver.go ReceiveRestartExistingChannelRequest: terminated check uses IsChannelCleaningUp", "restart-existing request for a channel that is Completed/Failed/Cancelled"),
 "C06a": ("C06", "channels_fsm.go: CompleteCleanupOnRestart accepted only from Cancelling and Completing", "crash after Failing was persisted and before Failed; reopen; RestartDataTransferChannel"),
 "C06b": ("C06", "internalchannel.go CborGenCompatibleNode.MarshalCBOR no longer converts typed nodes to their representation", "a voucher/result/selector supplied as a bindnode typed node whose representation differs (tuple / renames); reopen"),
 "C07a": ("C07", "caches.go blockIndexCache.getValue: durable read moved out of the lock, re-check under the write lock dropped", "two concurrent first reports of one event kind on a channel whose cache cell is unseeded (fresh channel or after reopen)"),
 "C07b": ("C07", "channels.go getReceivedIndex returns SentCidsTotal()", "receiver restarts over the same datastore, then a position at or below the durable index is re-sent on the wire (unique=true)"),
 "C08a": ("C08", "caches.go progressCache.getValue reads the durable limit/progress before taking the write lock", "cold progress cache (restart / first report) and a SetDataLimit overlapping that first report's read"),
 "C08b": ("C08", "caches.go progressCache.progress signals pause only on the report that crosses the limit", "a report that arrives after the limit was already crossed (block in flight, restart at the limit, update with limit <= progress)"),
 "C09a": ("C09", "channels_fsm.go: FinishTransfer just-record list loses Cancelling (rebased onto the D10 fix)", "transport reports 'finished' between Cancel being applied and CleanupComplete being applied"),
 "C09b": ("C09", "impl/impl.go CloseDataTransferChannel returns when transport.CloseChannel fails", "closing a channel whose transport request never started (push initiator before the responder's graphsync request)"),
 "C10a": ("C10", "graphsync.go gsDataRequestRcvd ranges over c.pendingExtensions without clearing it", "requester cancels, responder queues a message, requester returns (delivered), cancels again, returns again (delivered twice)"),
 "C10b": ("C10", "impl/restart.go openPushRestartChannel uses LastVoucher()", "a created push channel that sent an intermediate voucher, then any restart"),
 "C11a": ("C11", "channel_state.go SelfPaused reads the raw flags instead of the accessors", "responder in Finalizing without the durable pause flag; initiator sends a resume"),
 "C11b": ("C11", "impl/receiver.go receiveRequest: ErrPause handling moved inside 'response != nil'", "both parties paused, initiator resumes first, the resume arrives as a plain network update message (nil response)"),
 "C12a": ("C12", "message.go ValidationResultResponse drops 'validationErr == nil &&'", "validator accepts and a later set-up step fails (e.g. the same new request delivered twice)"),
 "C12b": ("C12", "message.go FromNet: body check weakened to 'both nil'", "a schema-valid message whose IsRq flag disagrees with which body is populated"),
 "C13a": ("C13", "migrations.go: paused-status test turned into a range including ResponderFinalizing", "a v2 store holding a channel in exactly ResponderFinalizing"),
 "C13b": ("C13", "impl/impl.go manager.Start: err shadowed, readiness always published with nil", "a migration that fails (corrupt v2 record, datastore error)"),
 "C14a": ("C14", "channelmonitor.go subscriber guard reduced to IsChannelTerminated", "cleanup-to-terminal window longer than the remaining complete-timeout, or an error event inside that window"),
 "C14b": ("C14", "channelmonitor.go addChannel returns the existing monitored channel on a duplicate add", "monitor-driven restart in which ConnectTo succeeds but sending the restart request fails (restart.go then shuts the live monitor down)"),
 "C15a": ("C15", "network/libp2p_impl.go openStream backoff select watches the per-attempt context", "an open attempt that fails by its per-attempt timeout, or a backoff longer than the open timeout"),
 "C15b": ("C15", "network/libp2p_impl.go SendMessage reuses err for s.Reset()", "stream opens, write fails, Reset succeeds (send reported as success)"),
 "C16a": ("C16", "graphsync.go gsNetworkReceiveErrorListener filter rewritten with OtherParty(p) != t.peerID", "three peers: a receive error for one peer while a locally initiated channel with another peer is tracked"),
 "C16b": ("C16", "graphsync.go dtChannel.useStore: storeRegistered = err == nil", "per-channel store + in-process restart (second UseStore gets 'already registered' and un-marks the store) — also breaks C01 (same change delivered independently as C01b)"),
 "C17a": ("C17", "channelsubscriptions.go table keyed by TransferID", "two channels with the same transfer id and different peers on one manager"),
 "C17b": ("C17", "channelsubscriptions.go new Unsubscribe + impl.go calls it when the first send of a new channel fails", "first send of a channel opened WithSubscriber fails"),
 "C18a": ("C18", "impl/timecounter.go seeded with UnixMilli()", "first manager issues more than one id per millisecond on average, node restarts soon after"),
 "C18b": ("C18", "impl/receiving_requests.go receiveNewRequest fails the channel when acceptRequest errs", "a second new-request carrying the transfer id of a channel the responder already tracks"),
 "C19a": ("C19", "impl/impl.go SendVoucher records the voucher before sending it", "SendMessage fails while an intermediate voucher is sent"),
 "C19b": ("C19", "migrations.go: Initiator copied from old.Sender", "upgrade of a v2 store that holds a pull channel"),
 "C20a": ("C20", "graphsync.go Transport.CleanupChannel: defer-unlock tidy-up runs ch.cleanup() under dtChannelsLk", "gsReqRecdHook processing a request for channel X while the FSM runs CleanupChannel(X)"),
 "C20b": ("C20", "caches.go progress cache entries shared by pointer; progress() reads dataLimit without the lock", "block reports and a data-limit change on one channel from different goroutines (visible under -race only)"),
 # ---- round 2 (second, independent set of sub-agents; same protocol)
 "C01r2a": ("C01", "impl/impl.go processValidationUpdate: reply's Paused flag taken from result.ForcePause instead of LeaveRequestPaused(chst)", "a finalization that takes more than one validation round (update while Finalizing that is accepted, not ForcePause, still RequiresFinalization)"),
 "C01r2b": ("C01", "migrations.go MigrateChannelState2To3: 'Queued: old.Queued' lost while reordering the literal", "a sender persisted by the previous release, interrupted mid-transfer, upgraded, restarted and completed (Queued total short)"),
 "C03r2a": ("C03", "manager.go LeaveRequestPaused: data-limit test became an early return ahead of the finalization test", "responder in Finalizing + update with RequiresFinalization and a non-zero DataLimit above current progress"),
 "C03r2b": ("C03", "impl/events.go OnChannelCompleted: BeginFinalizing skipped when already Finalizing, falling through to Complete", "a second transport completion (restart) while the responder waits for final settlement"),
 "C04r2a": ("C04", "impl/receiver.go receiveRequest: '(IsNew && Accepted) || IsRestart' opens the transport for a rejected push restart", "a push restart request whose re-validation is rejected"),
 "C04r2b": ("C04", "impl/receiving_requests.go recordAcceptedValidationEvents: data limit recorded only when lifted or raised", "a validator that lowers the data limit on restart or re-validation"),
 "C05r2a": ("C05", "graphsync.go processExtension: channel check reduced to 'we are the responder/initiator and the transfer id matches'", "a third peer whose graphsync request/response carries a message for a channel between two other peers"),
 "C05r2b": ("C05", "impl/restart.go validateRestartRequest: base CID compared by multihash only", "a restart request repeating the root as a different CID version/codec with the same hash"),
 "C06r2a": ("C06", "impl/impl.go RestartDataTransferChannel returns early for a self-paused channel, before the cleaning-up test", "a channel persisted while cleaning up whose pause flag is set; process restart; RestartDataTransferChannel"),
 "C06r2b": ("C06", "channels.go: terminal states cached in memory by dispatch and served by GetByID without reading the store", "a terminal transition whose datastore write is still pending/failed when the state is queried"),
 "C07r2a": ("C07", "caches.go updateIfGreater: single CAS attempt instead of the retry loop", "two reports above the mark racing: the loser is dropped although it is above the winner's index"),
 "C07r2b": ("C07", "migrations.go MigrateChannelState2To3 drops the Queued byte total (same edit as C01r2b, delivered independently)", "upgrade of a v2 store holding a sender with progress"),
 "C09r2a": ("C09", "impl/impl.go CloseDataTransferChannel: the goroutine's cancel-message context derived from the caller's ctx", "a caller that cancels its context right after the close call returns (the usual defer cancel())"),
 "C10r2a": ("C10", "channels_fsm.go: CompleteCleanupOnRestart just-records for some cleanup states (equivalent to an existing self-test variant)", "restart of a channel persisted in a cleanup state"),
 "C10r2b": ("C10", "impl/receiver.go receiveRequest: channel state for the push restart read before OnRequestReceived and its error ignored", "a push restart whose processing changes the recorded progress (or a failed lookup): wrong skip count"),
 "C14r2a": ("C14", "channelmonitor.go doRestartChannel: recursion turned into a loop that counts locally and writes the counter back at the end", "data progress (counter reset) arriving during the restart back-off is overwritten"),
 "C14r2b": ("C14", "impl/impl.go Open*DataChannel: monitor added only after the request was sent", "an Accept that arrives before AddPushChannel runs: the accept timeout closes a healthy channel"),
 "C19r2a": ("C19", "internalchannel.go CborGenCompatibleNode marshals typed nodes without taking their representation (same defect class as C06b)", "a typed bindnode voucher whose representation differs from its type-level view; reopen"),
 "C19r2b": ("C19", "impl/restart.go restartManagerPeerReceive*: recordAcceptedValidationEvents called after re-validation", "a responder-side restart whose re-validation returns a voucher result: recorded although never sent"),
 "C16r2a": ("C16", "graphsync.go processExtension: channel check drops the transfer id (peers only)", "two channels between the same pair of peers: a message for one applied through the other's graphsync request"),
 "C16r2b": ("C16", "graphsync.go gsBlockSentHook: the on-wire early return removed, flag passed as 'unique' instead", "restart with do-not-send-first-blocks: skipped blocks fire DataSent events"),
 "C02r2a": ("C02", "channels.go/channels_fsm.go: the state machine's FinalityStates list loses Completed (IsChannelTerminated unchanged)", "anything arriving after Completed: a late cancel message, transport callback or API call changes the finished channel"),
 "C02r2b": ("C02", "impl/impl.go RestartDataTransferChannel publishes a synthetic CleanupComplete for a terminated channel not yet announced by this process", "terminate, stop, reopen on the same datastore, RestartDataTransferChannel with a subscriber registered"),
 "C08r2a": ("C08", "impl/events.go OnDataReceived: a failed pause announcement returns OnRequestDisconnected(...) (nil) instead of the error", "push responder with a limit; SendMessage to the initiator fails exactly on the report that reaches the limit"),
 "C08r2b": ("C08", "manager.go LeaveRequestPaused: 'remaining := limit - progress; remaining <= 0' on unsigned values", "an accepting update or restart validation with a non-zero limit strictly below the progress made"),
 "C11r2a": ("C11", "impl/events.go OnResponseReceived: the self-paused check runs only for bare update responses", "initiator paused while the responder's 'not paused' arrives on an accept / voucher-result / restart response"),
 "C11r2b": ("C11", "impl/impl.go handleTransportUpdate: transport resumed only if the initiator is not paused", "both parties paused; the responder lifts its pause first through UpdateValidationStatus"),
 "C12r2a": ("C12", "message1_1prime: TransferId fields become int64 ('align with schema Int')", "a transfer id at or above 2^63 and a byte-level check or a peer on another build"),
 "C12r2b": ("C12", "message1_1prime ToNet: shared dagcbor.EncodeOptions{AllowLinks: true}.Encode drops the canonical map sort", "a consumer that looks at the bytes (strict decoder, golden bytes, hashing), e.g. a voucher map built in non-canonical order"),
 "C13r2a": ("C13", "types.go ChannelStages.AddLog: nil-receiver guard dropped in a tidy-up", "a v2 record without a stage log and any event on that channel after migration"),
 "C13r2b": ("C13", "migrations.go GetChannelStateMigrations: wraps the 2→3 step and overwrites SelfPeer with the opener's identity", "a v2 store whose records carry a SelfPeer different from the peer the module is constructed with"),
 "C15r2a": ("C15", "message.go FromNet/FromIPLD tails merged; body check weakened to 'both nil' (same defect class as C12b)", "a schema-valid envelope whose kind flag disagrees with the member present"),
 "C15r2b": ("C15", "network/libp2p_impl.go openStream: 'retry straight away on a stream reset' skips the attempt counter", "NewStream failing with an error wrapping network.ErrReset: unbounded retries"),
 "C17r2a": ("C17", "channels.go dispatch: Message cleared on the state copy that is also the subscribers' snapshot", "a message-recording event followed by another event; observer reads Message() on the later snapshot"),
 "C17r2b": ("C17", "impl/impl.go dispatcher: per-subscriber 5 s timeout returns an error, which stops go-pubsub's fan-out", "one subscriber taking more than 5 s and another registered after it"),
 "C18r2a": ("C18", "impl/timecounter.go new release() (atomic decrement) called by newRequest when the request cannot be built", "a failing open racing two valid opens: an id is issued twice"),
 "C18r2b": ("C18", "channels.go CreateNew primes the progress cache before Begin", "a duplicate create for a channel with a non-zero limit and progress: its in-memory accounting is reset"),
 "C20r2a": ("C20", "graphsync.go ChannelsForPeer: looks the channel up through getDTChannel (RLock) while already holding dtChannelsLk.RLock", "a writer (trackDTChannel/CleanupChannel) arriving between the two read locks"),
 "C20r2b": ("C20", "channelmonitor.go new Monitor.ShutdownChannel + impl.go CloseDataTransferChannel calls it synchronously", "CloseDataTransferChannel called from inside an event subscriber (unsubscribe under the pubsub read lock)"),
}
rows = []
for id in sorted(T):
    d = os.path.join(root, "seeded", id)
    if not os.path.isdir(d):
        continue
    prop, what, needs = T[id]
    conf = json.load(open(os.path.join(d, "confirm.json"))) if os.path.exists(os.path.join(d, "confirm.json")) else {}
    det = json.load(open(os.path.join(d, "detect.json"))) if os.path.exists(os.path.join(d, "detect.json")) else {}
    meta = {
        "id": id, "breaks_property": prop, "change": what, "needs_to_manifest": needs,
        "origin": "independent sub-agent given only the property text and its own scratch worktree of /repo",
        "confirmed_in_scratch_worktree": bool(conf.get("confirmed")),
        "what_was_run": {
            "script": "tools/confirm_seed.sh (fresh git worktree of /repo HEAD under /tmp, removed afterwards)",
            "repo_head": conf.get("repo_head"),
            "suite_with_change": "go test -vet=off -count=1 ./... (failing packages retried: itest has load-dependent flakes also on the unchanged tree) -> exit %s" % conf.get("suite_with_change_exit"),
            "demo_with_change": "go test %s -run '^(%s)$' %s -> exit %s (must fail)" % (open(os.path.join(d,'demo_flags')).read().strip() if os.path.exists(os.path.join(d,'demo_flags')) else '', conf.get("demo_tests"), conf.get("demo_packages"), conf.get("demo_with_change_exit")),
            "demo_without_change": "same command on the unchanged tree -> exit %s (must pass)" % conf.get("demo_without_change_exit"),
        },
        "detected_by_checks": [x.rstrip(",") for x in det.get("detected_by", [])],
        "checker_stuck": det.get("checker_stuck", []),
    }
    json.dump(meta, open(os.path.join(d, "meta.json"), "w"), indent=1)
    rows.append("| %s | %s | %s | %s | %s |" % (id, prop, what, needs, ", ".join(x.rstrip(',') for x in det.get("detected_by", [])) or "**missed**"))
print("| seeded | property | change | needs | reported by (quick checks) |\n|---|---|---|---|---|")
print("\n".join(rows))
