#!/usr/bin/env python3
"""Source of the self-test variants (mutants). Run to regenerate checker/mutants/*.json.
Each entry: (property, id, file, find, replace, expected rule, why, source)."""
import json, os, collections
M = []
def m(prop, id, file, find, replace, expect, why, source="design", more=None, all=False):
    d = dict(prop=prop, id=id, file=file, find=find, replace=replace, expect=expect, why=why, source=source)
    if all:
        d["all"] = True
    if more:
        d["more"] = [dict(find=e[0], replace=e[1], **({"file": e[2]} if len(e) > 2 else {})) for e in more]
    M.append(d)

FSM = "channels/channels_fsm.go"
EV = "impl/events.go"
GS = "transport/graphsync/graphsync.go"

# ---------------- C01
m("C01", "drop-completeErr-return", EV,
  "	if completeErr != nil {\n		// send an error, but only if we haven't already errored for some reason\n		if chst.Status()",
  "	if completeErr != nil && chst.Status() == datatransfer.Failing {\n		// send an error, but only if we haven't already errored for some reason\n		if chst.Status()",
  "C01.1", "responder completes although its transport reported an error")
m("C01", "complete-before-send-check", EV,
  "		return m.OnRequestDisconnected(chid, err)\n	}\n	log.Infow(\"successfully sent",
  "		_ = m.OnRequestDisconnected(chid, err)\n	}\n	log.Infow(\"successfully sent",
  "C01.2", "Complete recorded although the final Complete message was not sent")
m("C01", "partial-is-complete", GS,
  "	if status != graphsync.RequestCompletedFull {\n		statusStr",
  "	if status != graphsync.RequestCompletedFull && status != graphsync.RequestCompletedPartial {\n		statusStr",
  "C01.4", "partial graphsync response reported as clean completion")
m("C01", "cancelled-is-complete", GS,
  "	if status == graphsync.RequestCancelled {\n		return\n	}\n\n	var completeErr error",
  "	var completeErr error",
  "C01.4", "a cancelled response is reported as a (failed) completion")
m("C01", "lasterror-ignored", GS,
  "	if lastError != nil {\n		completeErr = fmt.Errorf(",
  "	if lastError != nil && t.completedRequestListener != nil {\n		completeErr = fmt.Errorf(",
  "C01.4", "request error dropped: completion reported clean")
m("C01", "drop-local-only-completion", FSM,
  "		From(datatransfer.AwaitingAcceptance).To(datatransfer.Completing).\n		Action(func(chst *internal.ChannelState) error {\n			chst.AddLog(\"\")\n			return nil\n		}),\n\n	fsm.Event(datatransfer.ResponderBeginsFinalization)",
  "		Action(func(chst *internal.ChannelState) error {\n			chst.AddLog(\"\")\n			return nil\n		}),\n\n	fsm.Event(datatransfer.ResponderBeginsFinalization)",
  "C03.3", "pull satisfied locally before acceptance no longer completes", "calibration")
m("C01", "finish-emitted-by-responder", EV,
  "	if chid.Initiator == m.peerID {\n		log.Infof(\"channel %s: transfer initiated by local node is complete\", chid)",
  "	if chid.Initiator == m.peerID || chst.IsPull() {\n		log.Infof(\"channel %s: transfer initiated by local node is complete\", chid)",
  "C01.1", "responder of a pull records FinishTransfer and never sends Complete")

# ---------------- C03
m("C03", "disconnected-fails", FSM,
  "fsm.Event(datatransfer.Disconnected).FromAny().ToNoChange()",
  "fsm.Event(datatransfer.Disconnected).FromAny().To(datatransfer.Failing)",
  "C03.1", "network-error notice becomes a failing transition", "calibration")
m("C03", "drop-local-only-completion", FSM,
  "		From(datatransfer.AwaitingAcceptance).To(datatransfer.Completing).\n		Action(func(chst *internal.ChannelState) error {\n			chst.AddLog(\"\")\n			return nil\n		}),\n\n	fsm.Event(datatransfer.ResponderBeginsFinalization)",
  "		Action(func(chst *internal.ChannelState) error {\n			chst.AddLog(\"\")\n			return nil\n		}),\n\n	fsm.Event(datatransfer.ResponderBeginsFinalization)",
  "C03.3", "local-only completion rule dropped", "calibration")
m("C03", "resume-initiator-completes", FSM,
  "		FromMany(datatransfer.Ongoing, datatransfer.Requested, datatransfer.Queued, datatransfer.AwaitingAcceptance, datatransfer.ResponderCompleted, datatransfer.ResponderFinalizing).ToJustRecord().\n		Action(func(chst *internal.ChannelState) error {\n			chst.InitiatorPaused = false",
  "		FromMany(datatransfer.Ongoing, datatransfer.Requested, datatransfer.Queued, datatransfer.AwaitingAcceptance, datatransfer.ResponderFinalizing).ToJustRecord().\n		From(datatransfer.ResponderCompleted).To(datatransfer.Completing).\n		Action(func(chst *internal.ChannelState) error {\n			chst.InitiatorPaused = false",
  "C03.1", "a pause-flag event completes the initiator with only the responder's Complete", "seeded/C03-a")
m("C03", "paused-complete-completes", FSM,
  "		From(datatransfer.TransferFinished).To(datatransfer.ResponderFinalizingTransferFinished).\n		FromMany(datatransfer.ResponderFinalizing",
  "		From(datatransfer.TransferFinished).To(datatransfer.Completing).\n		FromMany(datatransfer.ResponderFinalizing",
  "C03.2", "a paused (finalizing) Complete completes the initiator")
m("C03", "finish-alone-completes", FSM,
  "		From(datatransfer.ResponderFinalizing).To(datatransfer.ResponderFinalizingTransferFinished).\n		// If we",
  "		From(datatransfer.ResponderFinalizing).To(datatransfer.ResponderFinalizingTransferFinished).\n		From(datatransfer.Ongoing).To(datatransfer.Completing).\n		// If we",
  "C03.2", "local finish alone completes an accepted channel")
m("C03", "complete-action-resets-counter", FSM,
  "	fsm.Event(datatransfer.Complete).FromAny().To(datatransfer.Completing).Action(func(chst *internal.ChannelState) error {\n		chst.AddLog(\"\")",
  "	fsm.Event(datatransfer.Complete).FromAny().To(datatransfer.Completing).Action(func(chst *internal.ChannelState) error {\n		chst.ResponderPaused = false\n		chst.AddLog(\"\")",
  "C03.5", "lifecycle event changes a pause flag")
m("C03", "finalization-choice-inverted", EV,
  "	if chst.RequiresFinalization() {\n		return m.channels.BeginFinalizing(chid)\n	}\n	return m.channels.Complete(chid)",
  "	if !chst.RequiresFinalization() {\n		return m.channels.BeginFinalizing(chid)\n	}\n	return m.channels.Complete(chid)",
  "C03.6", "responder requiring finalization completes at once")
m("C03", "paused-complete-taken-as-final", EV,
  "		if !response.IsPaused() {\n			// if not, mark the responder done and return",
  "		if !response.IsPaused() || response.IsRestart() {\n			// if not, mark the responder done and return",
  "C03.6", "paused Complete with a voucher result is taken as the final word")
m("C03", "finalizing-not-reported-paused", "channels/channel_state.go",
  "return c.ic.ResponderPaused || c.ic.Status == datatransfer.Finalizing",
  "return c.ic.ResponderPaused || (c.ic.RequiresFinalization && c.ic.Status == datatransfer.Finalizing)",
  "C03.4", "responder awaiting finalization reports itself un-paused and is never released", "seeded/C03-b")

# ---------------- C02
CH = "channels/channels.go"
IMPL = "impl/impl.go"
m("C02", "restart-terminated-reissues", IMPL,
  "	if channels.IsChannelTerminated(channel.Status()) {\n		return nil\n	}\n\n	// if channel is is cleanup state",
  "	// if channel is is cleanup state",
  "C02.4", "restart of a terminated channel re-issues requests", "calibration")
m("C02", "cancel-terminated-errors", CH,
  "	if errors.Is(err, statemachine.ErrTerminated) {\n		return nil\n	}\n\n	return err",
  "	if errors.Is(err, statemachine.ErrTerminated) {\n		return err\n	}\n\n	return err",
  "C02.3", "cancel of a terminated channel returns an error", "calibration")
m("C02", "restart-request-terminated-ok", "impl/restart.go",
  "	if channels.IsChannelTerminated(channel.Status()) {\n		return errors.New(\"channel is already terminated\")\n	}\n",
  "	if channels.IsChannelTerminated(channel.Status()) {\n		log.Warn(\"channel is already terminated\")\n	}\n",
  "C02.5", "restart request for a terminated channel passes validation")
m("C02", "row-out-of-failed", FSM,
  "fsm.Event(datatransfer.Restart).FromAny().ToJustRecord()",
  "fsm.Event(datatransfer.Restart).FromAny().ToJustRecord().From(datatransfer.Failed).To(datatransfer.Ongoing)",
  "C02.2", "a declared row leaves a terminal status")
m("C02", "no-finality-states", CH,
  "		FinalityStates:  ChannelFinalityStates,\n",
  "",
  "C02.1", "the state machine is not told which statuses are final")
m("C02", "migration-folds-cancelled", "channels/internal/migrations/migrations.go",
  "	if newStatus == datatransfer.ResponderPaused || newStatus == datatransfer.InitiatorPaused || newStatus == datatransfer.BothPaused {",
  "	if newStatus > datatransfer.Cancelling && newStatus <= datatransfer.BothPaused {",
  "C02.8", "migration rewrites a Cancelled channel to Ongoing on reopen", "seeded/C02a")
m("C02", "restart-existing-wrong-helper", "impl/receiver.go",
  "	if channels.IsChannelTerminated(channel.Status()) {\n		log.Errorf(\"cannot restart channel %s: channel already terminated\", ch)",
  "	if channels.IsChannelCleaningUp(channel.Status()) {\n		log.Errorf(\"cannot restart channel %s: channel already terminated\", ch)",
  "C02.6", "restart-existing request honoured for a terminated channel", "seeded/C02b")
m("C02", "terminated-helper-wrong-list", FSM,
  "	for _, s := range ChannelFinalityStates {\n		if s == st {",
  "	for _, s := range CleanupStates {\n		if s == st {",
  "C02.1", "IsChannelTerminated tests the cleanup list")
m("C02", "failed-not-final", FSM,
  "var ChannelFinalityStates = []fsm.StateKey{\n	datatransfer.Cancelled,\n	datatransfer.Completed,\n	datatransfer.Failed,\n}",
  "var ChannelFinalityStates = []fsm.StateKey{\n	datatransfer.Cancelled,\n	datatransfer.Completed,\n}",
  "C02.1", "Failed is not absorbing")

# ---------------- C04
RR = "impl/receiving_requests.go"
MSG = "message/message1_1prime/message.go"
m("C04", "rejected-still-creates", RR,
  "	if err != nil || !result.Accepted {\n		return result, err\n	}\n\n	// create the channel",
  "	if err != nil {\n		return result, err\n	}\n\n	// create the channel",
  "C04.1", "a rejected (no error) new request still creates the channel", "calibration")
m("C04", "accepted-ignores-error", MSG,
  "		RequestAccepted:       validationErr == nil && validationResult.Accepted,",
  "		RequestAccepted:       validationResult.Accepted,",
  "C04.3", "reply's Accepted flag ignores the validator's error", "calibration")
m("C04", "requestError-nil-for-reject", RR,
  "	if !result.Accepted {\n		return datatransfer.ErrRejected\n	}\n	if stayPaused {",
  "	if stayPaused {",
  "C04.4", "rejection produces no error for the transport")
m("C04", "pause-outranks-reject", RR,
  "	if !result.Accepted {\n		return datatransfer.ErrRejected\n	}\n	if stayPaused {\n		return datatransfer.ErrPause\n	}",
  "	if stayPaused {\n		return datatransfer.ErrPause\n	}\n	if !result.Accepted {\n		return datatransfer.ErrRejected\n	}",
  "C04.4", "a rejected request with ForcePause keeps its transport channel (paused)", "seeded/C04a")
m("C04", "selector-error-overwritten", RR,
  "	stor, err := incoming.Selector()\n	if err != nil {\n		return datatransfer.ValidationResult{}, err\n	}\n\n	voucher, err",
  "	stor, err := incoming.Selector()\n	voucher, err",
  "C04.1", "missing-selector error overwritten before it is checked", "seeded/C04b")
m("C04", "no-close-on-reject", "impl/receiver.go",
  "	if receiveErr != nil {\n		_ = r.manager.transport.CloseChannel(ctx, chid)\n		return receiveErr\n	}",
  "	if receiveErr != nil {\n		return receiveErr\n	}",
  "C04.5", "rejected request leaves the transport channel open")
m("C04", "wrong-datalimit-recorded", RR,
  "		err := m.channels.SetDataLimit(chid, result.DataLimit)",
  "		err := m.channels.SetDataLimit(chid, chst.DataLimit())",
  "C04.8", "the validator's data limit is not recorded")
m("C04", "push-validated-as-pull", RR,
  "	if incoming.IsPull() {\n		validatorFunc = validator.ValidatePull\n	} else {\n		validatorFunc = validator.ValidatePush\n	}",
  "	if !incoming.IsPull() {\n		validatorFunc = validator.ValidatePull\n	} else {\n		validatorFunc = validator.ValidatePush\n	}",
  "C04.1", "push requests validated by the pull validator")
m("C04", "restart-rejection-not-recorded", RR,
  "	if !result.Accepted {\n		return stayPaused, result, m.recordRejectedValidationEvents(chid, result)\n	}\n\n	// record the restart events",
  "	if !result.Accepted {\n		return stayPaused, result, nil\n	}\n\n	// record the restart events",
  "C04.6", "rejected restart does not fail the channel")
m("C04", "update-reject-keeps-transport", "impl/impl.go",
  "	if resultErr != nil || !result.Accepted {\n		m.transport.CloseChannel(ctx, chst.ChannelID())\n		return resultErr\n	}",
  "	if resultErr != nil {\n		m.transport.CloseChannel(ctx, chst.ChannelID())\n		return resultErr\n	}",
  "C04.7", "rejecting validation update leaves the transport open")
m("C04", "open-transport-unaccepted", "impl/receiver.go",
  "		if (response.IsNew() || response.IsRestart()) && response.Accepted() && !incoming.IsPull() {",
  "		if (response.IsNew() || response.IsRestart()) && !incoming.IsPull() {",
  "C04.5", "transport channel opened for a push that was not accepted")
m("C04", "restart-unchecked-processor", RR,
  "	processor, ok := m.validatedTypes.Processor(chv.Type)\n	if !ok {\n		return datatransfer.ValidationResult{}, fmt.Errorf(\"unknown voucher type: %s\", chv.Type)\n	}",
  "	processor, _ := m.validatedTypes.Processor(chv.Type)",
  "C04.10", "restart with unregistered voucher type panics (defect D2)")
m("C04", "update-nil-chst", "impl/impl.go",
  "	if chst == nil {\n		// the channel could not be read or updated, so there is no transport state to update\n		return err\n	}\n",
  "",
  "C04.10", "validation update on unknown channel dereferences nil (defect D4)")
m("C04", "gs-validates-rejected", GS,
  "	if err != nil && err != datatransfer.ErrPause {\n		log.Infof(\"%s: terminating req_id=%d with error: %s\", chid, request.ID(), err.Error())\n		hookActions.TerminateWithError(err)\n		return\n	}",
  "	if err != nil && err != datatransfer.ErrPause {\n		log.Infof(\"%s: terminating req_id=%d with error: %s\", chid, request.ID(), err.Error())\n		hookActions.TerminateWithError(err)\n	}",
  "C04.9", "graphsync request validated although the manager rejected it")

# ---------------- C05
RS = "impl/restart.go"
RC = "impl/receiver.go"
m("C05", "responder-check-dropped", IMPL,
  "	if channelID.Initiator == m.peerID {\n		err := errors.New(\"cannot send voucher result for request we initiated\")\n		span.RecordError(err)\n		span.SetStatus(codes.Error, err.Error())\n		return err\n	}\n",
  "",
  "C05.5", "initiator may send voucher results", "calibration")
m("C05", "restart-no-initiator-check", RS,
  "	if channel.ChannelID().Initiator != otherPeer {\n		return errors.New(\"other peer is not the initiator of the channel\")\n	}\n",
  "",
  "C05.3", "restart request honoured from a peer that did not initiate the channel")
m("C05", "restart-no-basecid-check", RS,
  "	if req.BaseCid() != channel.BaseCID() {\n		return errors.New(\"base cid does not match\")\n	}\n",
  "",
  "C05.3", "restart request with a different base CID honoured")
m("C05", "restart-no-vouchertype-check", RS,
  "	if req.VoucherType() != channelVoucher.Type {\n		return errors.New(\"channel and request voucher types do not match\")\n	}\n",
  "",
  "C05.3", "restart request with a different voucher type honoured")
m("C05", "restart-no-voucher-check", RS,
  "	if !ipld.DeepEqual(reqVoucher, channelVoucher.Voucher) {\n		return errors.New(\"channel and request vouchers do not match\")\n	}\n",
  "	_ = ipld.DeepEqual(reqVoucher, channelVoucher.Voucher)\n",
  "C05.3", "restart request with a different voucher honoured")
m("C05", "restart-compares-last-voucher", RS,
  "	channelVoucher := channel.Voucher()\n	if req.VoucherType()",
  "	channelVoucher := channel.LastVoucher()\n	if req.VoucherType()",
  "C05.3", "restart request compared with the latest voucher instead of the original", "seeded/C05a")
m("C05", "restart-existing-wrong-helper", RC,
  "	if channels.IsChannelTerminated(channel.Status()) {\n		log.Errorf(\"cannot restart channel %s: channel already terminated\", ch)",
  "	if channels.IsChannelCleaningUp(channel.Status()) {\n		log.Errorf(\"cannot restart channel %s: channel already terminated\", ch)",
  "C05.4", "restart-existing request honoured for a terminated channel", "seeded/C05b")
m("C05", "restart-existing-no-sender-check", RC,
  "	if channel.OtherPeer() != sender {\n		log.Errorf(\"cannot restart channel %s: channel counterparty is not the sender peer\", ch)\n		return\n	}\n",
  "",
  "C05.4", "restart-existing request honoured from a stranger")
m("C05", "chid-from-message-content", RC,
  "	chid := datatransfer.ChannelID{Initiator: initiator, Responder: r.manager.peerID, ID: incoming.TransferID()}\n	ctx, _ = r.manager.spansIndex.SpanForChannel(ctx, chid)\n	ctx, span := otel.Tracer(\"data-transfer\").Start(ctx, \"receiveRequest\"",
  "	chid := datatransfer.ChannelID{Initiator: initiator, Responder: r.manager.peerID, ID: incoming.TransferID()}\n	if rc, err := incoming.RestartChannelId(); err == nil && rc.ID != 0 {\n		chid = rc\n	}\n	ctx, _ = r.manager.spansIndex.SpanForChannel(ctx, chid)\n	ctx, span := otel.Tracer(\"data-transfer\").Start(ctx, \"receiveRequest\"",
  "C05.1", "channel id taken from message content")
m("C05", "extension-no-crosscheck", GS,
  "		if (chid != datatransfer.ChannelID{ID: msg.TransferID(), Initiator: p, Responder: t.peerID}) {\n			return nil, errors.New(\"received request on response channel\")\n		}\n",
  "",
  "C05.2", "request accepted on a channel the sender did not initiate")
m("C05", "restart-by-initiator-allowed", RR,
  "	if m.peerID == initiator {\n		return false, datatransfer.ValidationResult{}, errors.New(\"initiator cannot be manager peer for a restart request\")\n	}\n",
  "	if m.peerID == initiator {\n		_ = errors.New(\"initiator cannot be manager peer for a restart request\")\n	}\n",
  "C05.3", "restart request processed on a channel we initiated")
m("C05", "update-status-by-initiator", IMPL,
  "	if chid.Initiator == m.peerID {\n		err := errors.New(\"cannot send voucher result for request we initiated\")\n		return err\n	}\n",
  "",
  "C05.5", "initiator may send validation updates")
m("C05", "wrong-remote-peer", "network/libp2p_impl.go",
  "					dtnet.receiver.ReceiveRequest(ctx, p, receivedRequest)",
  "					dtnet.receiver.ReceiveRequest(ctx, s.Conn().LocalPeer(), receivedRequest)",
  "C05.1", "request attributed to the wrong peer")

# ---------------- C07
CA = "channels/caches.go"
m("C07", "index-moves-backwards", FSM,
  "			if rcvdBlocksTotal > chst.ReceivedBlocksTotal {\n				chst.ReceivedBlocksTotal = rcvdBlocksTotal\n			}",
  "			chst.ReceivedBlocksTotal = rcvdBlocksTotal",
  "C07.1", "block indexes move backwards", "calibration")
m("C07", "count-blocks-not-on-wire", GS,
  "	if block.BlockSizeOnWire() == 0 {\n		return\n	}\n\n	chid, ok := t.requestIDToChannelID.load(request.ID())\n	if !ok {\n		return\n	}\n\n	// OnDataQueued",
  "	chid, ok := t.requestIDToChannelID.load(request.ID())\n	if !ok {\n		return\n	}\n\n	// OnDataQueued",
  "C07.5", "blocks that never went on the wire are counted as queued", "calibration")
m("C07", "every-block-unique", GS,
  "	err := t.events.OnDataReceived(chid, block.Link(), block.BlockSize(), block.Index(), block.BlockSizeOnWire() != 0)",
  "	err := t.events.OnDataReceived(chid, block.Link(), block.BlockSize(), block.Index(), true)",
  "C07.6", "every received block flagged unique", "calibration")
m("C07", "seed-outside-lock", CA,
  "	bic.lk.Lock()\n	defer bic.lk.Unlock()\n	value = bic.values[idxKey]\n	if value != nil {\n		return value, nil\n	}\n	newValue, err := readFromOriginal(chid)\n	if err != nil {\n		return nil, err\n	}\n	bic.values[idxKey] = &newValue",
  "	newValue, err := readFromOriginal(chid)\n	if err != nil {\n		return nil, err\n	}\n	bic.lk.Lock()\n	defer bic.lk.Unlock()\n	bic.values[idxKey] = &newValue",
  "C07.2", "two concurrent first reporters each install their own high-water mark", "seeded/C07a")
m("C07", "received-seeded-from-sent", CH,
  "	return chst.ReceivedCidsTotal(), nil\n}\n\nfunc (c *Channels) getSentIndex",
  "	return chst.SentCidsTotal(), nil\n}\n\nfunc (c *Channels) getSentIndex",
  "C07.4", "received high-water mark seeded from the sent index after reopen", "seeded/C07b")
m("C07", "cas-result-ignored", CA,
  "		if atomic.CompareAndSwapInt64(value, currentIndex, newIndex) {\n			return true, nil\n		}",
  "		atomic.CompareAndSwapInt64(value, currentIndex, newIndex)\n		return true, nil",
  "C07.2", "concurrent reporters of one position both counted")
m("C07", "leq-instead-of-lt", CA,
  "		if newIndex <= currentIndex {\n			return false, nil\n		}",
  "		if newIndex < currentIndex {\n			return false, nil\n		}",
  "C07.2", "a replayed position is counted again")
m("C07", "progress-without-unique", CH,
  "	if !unique {\n		return\n	}\n",
  "",
  "C07.3", "non-unique blocks add to the byte totals")
m("C07", "progress-event-always", CH,
  "	if progress {\n		if err := c.stateMachines.Send(chid, progressEvt, delta); err != nil {\n			return err\n		}\n	}",
  "	if progress || unique {\n		if err := c.stateMachines.Send(chid, progressEvt, delta); err != nil {\n			return err\n		}\n	}",
  "C07.3", "replayed unique blocks add to the byte totals")
m("C07", "progress-sets-instead-of-adds", FSM,
  "			chst.Sent += delta\n",
  "			chst.Sent = delta\n",
  "C07.1", "sent total overwritten instead of accumulated")
m("C07", "size-on-wire-reported", GS,
  "	if err := t.events.OnDataSent(chid, block.Link(), block.BlockSize(), block.Index(), block.BlockSizeOnWire() != 0); err != nil {",
  "	if err := t.events.OnDataSent(chid, block.Link(), block.BlockSizeOnWire(), block.Index(), block.BlockSizeOnWire() != 0); err != nil {",
  "C07.6", "sent total counts wire size instead of block size")
m("C07", "queued-progress-from-sent", CH,
  "	return dataLimit, chst.Queued(), nil",
  "	return dataLimit, chst.Sent(), nil",
  "C07.4", "queued progress seeded from the sent counter after restart")

# ---------------- C08
MG = "manager.go"
m("C08", "wrong-direction-counter", MG,
  "	if chst.IsPull() {\n		limitFactor = chst.Queued()\n	} else {\n		limitFactor = chst.Received()\n	}",
  "	if chst.IsPull() {\n		limitFactor = chst.Received()\n	} else {\n		limitFactor = chst.Queued()\n	}",
  "C08.2", "resume rule reads the wrong direction's counter", "calibration")
m("C08", "gt-instead-of-geq", MG,
  "	return vr.DataLimit != 0 && limitFactor >= vr.DataLimit",
  "	return vr.DataLimit != 0 && limitFactor > vr.DataLimit",
  "C08.2", "> instead of >= in the resume rule", "calibration")
m("C08", "progress-forgotten-after-restart", CH,
  "	dataLimit := chst.DataLimit()\n	return dataLimit, chst.Received(), nil",
  "	dataLimit := chst.DataLimit()\n	_ = chst.Received()\n	return dataLimit, 0, nil",
  "C07.4", "progress forgotten after a restart", "calibration")
m("C08", "pause-notifies-wrong-peer", EV,
  "		if err := m.dataTransferNetwork.SendMessage(ctx, chid.Initiator, msg); err != nil {\n			return err\n		}\n	}\n\n	return err",
  "		if err := m.dataTransferNetwork.SendMessage(ctx, chid.Responder, msg); err != nil {\n			return err\n		}\n	}\n\n	return err",
  "C08.5", "the pause is announced to the wrong peer", "calibration")
m("C08", "progress-gt-boundary", CA,
  "	return state.dataLimit != 0 && total >= state.dataLimit, nil",
  "	return state.dataLimit != 0 && total > state.dataLimit, nil",
  "C08.1", "total == limit does not pause")
m("C08", "pause-only-on-crossing", CA,
  "	return state.dataLimit != 0 && total >= state.dataLimit, nil",
  "	if state.dataLimit == 0 || total < state.dataLimit {\n		return false, nil\n	}\n	return total-additionalData < state.dataLimit, nil",
  "C08.1", "only the crossing report pauses; later reports past the limit run on", "seeded/C08b")
m("C08", "seed-read-before-lock", CA,
  "	pc.lk.Lock()\n	defer pc.lk.Unlock()\n	value, ok = pc.values[chid]\n	if ok {\n		return value, nil\n	}\n	dataLimit, progress, err := readProgress(chid)\n	if err != nil {\n		return progressState{}, err\n	}",
  "	dataLimit, progress, err := readProgress(chid)\n	if err != nil {\n		return progressState{}, err\n	}\n	pc.lk.Lock()\n	defer pc.lk.Unlock()\n	value, ok = pc.values[chid]\n	if ok {\n		return value, nil\n	}",
  "C07.2", "limit raised while the seed read is in flight is overwritten by the stale one", "seeded/C08a")
m("C08", "no-limit-exceeded-event", CH,
  "		if err := c.stateMachines.Send(chid, datatransfer.DataLimitExceeded); err != nil {\n			return err\n		}\n",
  "",
  "C08.3", "responder not marked paused when the limit is hit")
m("C08", "cache-limit-not-updated", CH,
  "	c.progressCache.setDataLimit(chid, dataLimit)\n",
  "",
  "C08.6", "a raised limit is not seen by the cached limit check")
m("C08", "pause-not-signalled-to-graphsync", GS,
  "	if err == datatransfer.ErrPause {\n		hookActions.PauseRequest()\n	}",
  "	if err == datatransfer.ErrPause {\n		log.Debugf(\"pause requested\")\n	}",
  "C08.5", "graphsync request keeps running past the limit")
m("C08", "limit-check-skipped-for-push", CH,
  "	return c.fireProgressEvent(chid, datatransfer.DataReceived, datatransfer.DataReceivedProgress, delta, index, unique, c.getReceivedIndex, c.getReceivedProgress)",
  "	return c.fireProgressEvent(chid, datatransfer.DataReceived, datatransfer.DataReceivedProgress, delta, index, unique, c.getReceivedIndex, nil)",
  "C07.4", "push transfers never hit their limit")
m("C08", "resume-while-still-over-limit", "impl/impl.go",
  "	if resultErr == nil && result.Accepted && !pauseRequest {",
  "	if resultErr == nil && result.Accepted {",
  "C04.7", "accepting update resumes although progress is past the new limit")

# ---------------- C06
GEN = "channels/internal/internalchannel_cbor_gen.go"
m("C06", "decoder-case-lost", GEN,
  "		case \"Sent\":\n",
  "		case \"Sentt\":\n",
  "C06.1", "Sent is not restored when the store is reopened")
m("C06", "field-without-regenerating", "channels/internal/internalchannel.go",
  "	// ResponderPaused indicates whether the responder is in a paused state\n	ResponderPaused bool",
  "	// ResponderPaused indicates whether the responder is in a paused state\n	ResponderPaused bool\n	// PauseReason says why\n	PauseReason string",
  "C06.1", "a new record field is silently dropped on reopen")
m("C06", "decoder-cross-assigns", GEN,
  "				t.Queued = uint64(extra)",
  "				t.Sent = uint64(extra)",
  "C06.1", "Queued is restored into Sent")
m("C06", "getbyid-without-flush", CH,
  "	err := c.stateMachines.GetSync(ctx, chid, &internalChannel)",
  "	err := c.stateMachines.Get(chid).Get(&internalChannel)",
  "C06.2", "a state returned by a query is not durable yet")
m("C06", "cleanup-on-restart-just-records", FSM,
  "fsm.Event(datatransfer.CompleteCleanupOnRestart).FromAny().ToNoChange()",
  "fsm.Event(datatransfer.CompleteCleanupOnRestart).FromAny().ToJustRecord()",
  "C06.5", "a channel persisted while cleaning up never finishes cleanup")
m("C06", "sent-returns-queued", "channels/channel_state.go",
  "func (c channelState) Sent() uint64 { return c.ic.Sent }",
  "func (c channelState) Sent() uint64 { return c.ic.Queued }",
  "C06.3", "Sent() differs from the durable record")
m("C06", "tuple-order-swapped", "types_cbor_gen.go",
  "	// t.Initiator (peer.ID) (string)\n	if len(t.Initiator) > 8192 {\n		return xerrors.Errorf(\"Value in field t.Initiator was too long\")\n	}\n\n	if err := cw.WriteMajorTypeHeader(cbg.MajTextString, uint64(len(t.Initiator))); err != nil {\n		return err\n	}\n	if _, err := cw.WriteString(string(t.Initiator)); err != nil {",
  "	// t.Initiator (peer.ID) (string)\n	if len(t.Responder) > 8192 {\n		return xerrors.Errorf(\"Value in field t.Initiator was too long\")\n	}\n\n	if err := cw.WriteMajorTypeHeader(cbg.MajTextString, uint64(len(t.Responder))); err != nil {\n		return err\n	}\n	if _, err := cw.WriteString(string(t.Responder)); err != nil {",
  "C06.1", "channel id peers swapped on disk")
m("C06", "message-set-outside-fsm", CH,
  "func (c *Channels) fromInternalChannelState(ch internal.ChannelState) datatransfer.ChannelState {\n	return fromInternalChannelState(ch)",
  "func (c *Channels) fromInternalChannelState(ch internal.ChannelState) datatransfer.ChannelState {\n	if ch.Status == datatransfer.Failed && ch.Message == \"\" {\n		ch.Message = \"failed\"\n	}\n	return fromInternalChannelState(ch)",
  "C06.4", "a query returns a state that was never persisted")
m("C06", "restart-cleaning-up-reopens", "impl/impl.go",
  "	if channels.IsChannelCleaningUp(channel.Status()) {\n		return m.channels.CompleteCleanupOnRestart(channel.ChannelID())\n	}",
  "	if channels.IsChannelCleaningUp(channel.Status()) {\n		_ = m.channels.CompleteCleanupOnRestart(channel.ChannelID())\n	}",
  "C06.5", "restart of a cleaning-up channel goes on to re-open it")

# ---------------- C13
MIG = "channels/internal/migrations/migrations.go"
m("C13", "stage-log-dropped", MIG,
  "		Stages:               oldChannelState.Stages,\n",
  "",
  "C13.1", "migration drops the stage log", "calibration")
m("C13", "blocks-totals-crossed", MIG,
  "		SentBlocksTotal:      oldChannelState.SentBlocksTotal,",
  "		SentBlocksTotal:      oldChannelState.QueuedBlocksTotal,",
  "C13.1", "sent block index migrated from the queued one")
m("C13", "bothpaused-only-initiator", MIG,
  "	responderPaused := oldChannelState.Status == datatransfer.ResponderPaused || oldChannelState.Status == datatransfer.BothPaused",
  "	responderPaused := oldChannelState.Status == datatransfer.ResponderPaused",
  "C13.2", "BothPaused migrates with only the initiator flag")
m("C13", "paused-status-kept", MIG,
  "	if newStatus == datatransfer.ResponderPaused || newStatus == datatransfer.InitiatorPaused || newStatus == datatransfer.BothPaused {",
  "	if newStatus == datatransfer.ResponderPaused || newStatus == datatransfer.BothPaused {",
  "C13.2", "InitiatorPaused status survives the migration")
m("C13", "migration-folds-cancelled", MIG,
  "	if newStatus == datatransfer.ResponderPaused || newStatus == datatransfer.InitiatorPaused || newStatus == datatransfer.BothPaused {",
  "	if newStatus > datatransfer.Cancelling && newStatus <= datatransfer.BothPaused {",
  "C13.2", "Cancelled channel rewritten to Ongoing", "seeded/C02a")
m("C13", "v2-decoder-case-lost", "channels/internal/migrations/migrations_cbor_gen.go",
  "		case \"DataLimit\":\n",
  "		case \"Datalimit\":\n",
  "C13.3", "v2 DataLimit is not read from an old store")
m("C13", "wrong-target-version", CH,
  "	}, channelMigrations, versioning.VersionKey(\"3\"))",
  "	}, channelMigrations, versioning.VersionKey(\"2\"))",
  "C13.4", "store opened at the old schema version")
m("C13", "ready-published-twice", "impl/impl.go",
  "		err = m.readySub.Publish(err)\n		if err != nil {",
  "		_ = m.readySub.Publish(err)\n		err = m.readySub.Publish(err)\n		if err != nil {",
  "C13.5", "readiness announced twice")
m("C13", "ready-without-outcome", "impl/impl.go",
  "		err = m.readySub.Publish(err)\n		if err != nil {",
  "		err = m.readySub.Publish(nil)\n		if err != nil {",
  "C13.5", "readiness announced without the migration outcome")
m("C13", "old-version-missing", MIG,
  "		versioned.NewVersionedBuilder(MigrateChannelState2To3, \"3\").OldVersion(\"2\"),",
  "		versioned.NewVersionedBuilder(MigrateChannelState2To3, \"3\"),",
  "C13.4", "2→3 migration not chained after version 2")

# ---------------- C09
ENV = "impl/environment.go"
m("C09", "cleanup-keeps-transport-channel", ENV,
  "	ce.m.transport.CleanupChannel(chid)\n",
  "",
  "C09.3", "cleanup never releases the transport channel", "calibration")
m("C09", "finish-in-cancelling-leaves", FSM,
  "	fsm.Event(datatransfer.FinishTransfer).\n		FromAny().To(datatransfer.TransferFinished).\n		FromMany(datatransfer.Failing, datatransfer.Cancelling, datatransfer.Completing).ToJustRecord().",
  "	fsm.Event(datatransfer.FinishTransfer).\n		FromAny().To(datatransfer.TransferFinished).\n		FromMany(datatransfer.Failing, datatransfer.Completing).ToJustRecord().",
  "C09.1", "transfer finishing while cancelling strands the channel in TransferFinished", "seeded/C09a")
m("C09", "close-aborts-on-transport-error", IMPL,
  "	err = m.transport.CloseChannel(ctx, chid)\n	if err != nil {\n		span.RecordError(err)\n		span.SetStatus(codes.Error, err.Error())\n		log.Warnf(\"unable to close channel %s: %s\", chid, err)\n	}",
  "	err = m.transport.CloseChannel(ctx, chid)\n	if err != nil {\n		span.RecordError(err)\n		span.SetStatus(codes.Error, err.Error())\n		return fmt.Errorf(\"unable to close channel %s: %w\", chid, err)\n	}",
  "C09.5", "closing a channel whose transport request never started neither cancels nor notifies", "seeded/C09b")
m("C09", "begin-finalizing-leaves-cleanup", FSM,
  "		// A channel that is already cleaning up must finish its cleanup\n		FromMany(datatransfer.Failing, datatransfer.Cancelling, datatransfer.Completing).ToJustRecord().\n",
  "",
  "C09.1", "BeginFinalizing while cleaning up strands the channel in Finalizing (defect D10)")
m("C09", "close-nil-errch", GS,
  "	if errch == nil {\n		return nil\n	}\n",
  "",
  "C09.4", "close blocks on a nil channel when there is no request (defect D3)")
m("C09", "wrong-cancel-kind", "impl/utils.go",
  "func (m *manager) cancelMessage(chid datatransfer.ChannelID) datatransfer.Message {\n	if chid.Initiator == m.peerID {",
  "func (m *manager) cancelMessage(chid datatransfer.ChannelID) datatransfer.Message {\n	if chid.Responder == m.peerID {",
  "C09.5", "cancel message of the wrong kind")
m("C09", "no-unprotect", FSM,
  "	env.Unprotect(otherParty, datatransfer.ChannelID{ID: channel.TransferID, Initiator: channel.Initiator, Responder: channel.Responder}.String())\n",
  "",
  "C09.2", "peer connection stays protected after the channel ended")
m("C09", "failing-without-entry-func", FSM,
  "	datatransfer.Failing:    cleanupConnection,\n",
  "",
  "C09.1", "failed channels are never cleaned up and never reach Failed")
m("C09", "cleanup-leaves-mapping", GS,
  "	// Clean up mapping from gs key to channel ID\n	c.t.requestIDToChannelID.deleteRefs(c.channelID)\n",
  "",
  "C09.3", "request→channel mapping left behind after cleanup", "calibration")
m("C09", "close-with-error-no-fsm-event", IMPL,
  "	err = m.channels.Error(chid, cherr)\n	if err != nil {\n		return fmt.Errorf(\"unable to send error %s to channel FSM: %w\", cherr, err)\n	}",
  "	if err != nil {\n		err = m.channels.Error(chid, cherr)\n		if err != nil {\n			return fmt.Errorf(\"unable to send error %s to channel FSM: %w\", cherr, err)\n		}\n	}",
  "C09.5", "close-with-error fails the channel only when the cancel message could not be sent")
m("C09", "wait-without-ctx", GS,
  "	select {\n	case <-completed:\n		return nil\n	case <-time.After(maxGSCancelWait):\n		// Fail-safe: give up waiting after a certain amount of time\n		return nil\n	case <-ctx.Done():\n		return ctx.Err()\n	}",
  "	select {\n	case <-completed:\n		return nil\n	case <-time.After(maxGSCancelWait):\n		// Fail-safe: give up waiting after a certain amount of time\n		return nil\n	}",
  "C09.6", "waiting for the cancelled request ignores the caller's context")
m("C09", "unprotect-wrong-peer", FSM,
  "	if otherParty == env.ID() {\n		otherParty = channel.Responder\n	}",
  "	if otherParty != env.ID() {\n		otherParty = channel.Responder\n	}",
  "C09.2", "un-protects itself instead of the counterparty")

# ---------------- C10
m("C10", "pending-not-cleared", GS,
  "		extensions := c.pendingExtensions\n		c.pendingExtensions = nil\n		for _, ext := range extensions {",
  "		for _, ext := range c.pendingExtensions {",
  "C10.5", "queued message re-delivered on every later request", "seeded/C10a")
m("C10", "push-restart-last-voucher", RS,
  "func (m *manager) openPushRestartChannel(ctx context.Context, channel datatransfer.ChannelState) error {\n	selector := channel.Selector()\n	voucher := channel.Voucher()",
  "func (m *manager) openPushRestartChannel(ctx context.Context, channel datatransfer.ChannelState) error {\n	selector := channel.Selector()\n	voucher := channel.LastVoucher()",
  "C10.1", "push restart carries the latest voucher instead of the original", "seeded/C10b")
m("C10", "restart-as-new", RS,
  "	req, err := message.NewRequest(chid.ID, true, true, &voucher, baseCid, selector)",
  "	req, err := message.NewRequest(chid.ID, false, true, &voucher, baseCid, selector)",
  "C10.1", "pull restart re-issued as a new request")
m("C10", "restart-wrong-direction", RS,
  "	req, err := message.NewRequest(chid.ID, true, false, &voucher, baseCid, selector)",
  "	req, err := message.NewRequest(chid.ID, true, channel.IsPull() || true, &voucher, baseCid, selector)",
  "C10.1", "push restart re-issued as a pull")
m("C10", "skip-queued-instead-of-received", GS,
  "	skipBlockCount := channel.ReceivedCidsTotal()",
  "	skipBlockCount := channel.QueuedCidsTotal()",
  "C10.3", "sender told to skip the wrong number of blocks")
m("C10", "restart-ext-not-appended", GS,
  "	exts = append(exts, restartExts...)\n",
  "	_ = restartExts\n",
  "C10.3", "restart request goes out without the skip-blocks extension")
m("C10", "restart-ext-inverted", GS,
  "	if channel == nil {\n		return nil, nil\n	}\n	return getDoNotSendFirstBlocksExtension(channel)",
  "	if channel != nil {\n		return nil, nil\n	}\n	return nil, nil",
  "C10.3", "stored channel yields no skip extension")
m("C10", "pull-restart-without-channel", RS,
  "	if err := m.transport.OpenChannel(ctx, requestTo, chid, cidlink.Link{Cid: baseCid}, selector, channel, req); err != nil {",
  "	if err := m.transport.OpenChannel(ctx, requestTo, chid, cidlink.Link{Cid: baseCid}, selector, nil, req); err != nil {",
  "C10.1", "restarted pull re-requests every block")
m("C10", "reopen-without-cancel", GS,
  "	if c.requestID != nil {\n		// Cancel the existing graphsync request\n		completed := c.completed",
  "	if c.requestID != nil && c.requesterCancelled {\n		// Cancel the existing graphsync request\n		completed := c.completed",
  "C10.4", "previous graphsync request left running when the channel is re-opened")
m("C10", "restart-without-revalidation", RS,
  "func (m *manager) restartManagerPeerReceivePush(ctx context.Context, channel datatransfer.ChannelState) error {\n	result, err := m.validateRestart(channel)\n	if err != nil {\n		return fmt.Errorf(\"failed to restart channel, validation error: %w\", err)\n	}\n\n	if !result.Accepted {\n		return datatransfer.ErrRejected\n	}",
  "func (m *manager) restartManagerPeerReceivePush(ctx context.Context, channel datatransfer.ChannelState) error {\n	result, err := m.validateRestart(channel)\n	if err != nil {\n		return fmt.Errorf(\"failed to restart channel, validation error: %w\", err)\n	}\n\n	if !result.Accepted {\n		log.Warn(datatransfer.ErrRejected)\n	}",
  "C10.6", "responder asks for a restart although its validator rejects it")
m("C10", "queue-while-present", GS,
  "	if c.requesterCancelled {\n		// If there was an associated message, we still want to send it to the",
  "	if c.requesterCancelled || msg != nil {\n		// If there was an associated message, we still want to send it to the",
  "C10.5", "resume message queued although the requester is present")
m("C10", "restart-creates-channel", RR,
  "	// record the restart events\n	if err := m.channels.Restart(chid); err != nil {",
  "	// record the restart events\n	if _, cerr := m.channels.CreateNew(m.peerID, chid.ID, incoming.BaseCid(), nil, datatransfer.TypedVoucher{}, initiator, initiator, m.peerID); cerr == nil {\n		_ = m.channels.Open(chid)\n	}\n	if err := m.channels.Restart(chid); err != nil {",
  "C10.2", "a restart request can create a channel")
m("C10", "role-dispatch-swapped", IMPL,
  "	case ManagerPeerCreatePull:\n		return m.openPullRestartChannel(ctx, channel)\n	case ManagerPeerCreatePush:\n		return m.openPushRestartChannel(ctx, channel)",
  "	case ManagerPeerCreatePull:\n		return m.openPushRestartChannel(ctx, channel)\n	case ManagerPeerCreatePush:\n		return m.openPullRestartChannel(ctx, channel)",
  "C10.1", "created-pull channel restarted as a push")

# ---------------- C11
UT = "impl/utils.go"
CS = "channels/channel_state.go"
m("C11", "pause-initiator-sets-responder", FSM,
  "			chst.InitiatorPaused = true\n",
  "			chst.InitiatorPaused = true\n			chst.ResponderPaused = true\n",
  "C11.1", "pausing the initiator also marks the responder paused")
m("C11", "resume-responder-fromany", FSM,
  "		FromMany(datatransfer.Ongoing, datatransfer.Requested, datatransfer.Queued, datatransfer.AwaitingAcceptance, datatransfer.TransferFinished).ToJustRecord().\n		From(datatransfer.Finalizing).To(datatransfer.Completing).",
  "		FromAny().ToJustRecord().\n		From(datatransfer.Finalizing).To(datatransfer.Completing).",
  "C11.1", "resume accepted in every status, including cleanup and terminal ones")
m("C11", "pause-responder-nochange", FSM,
  "		FromMany(datatransfer.Ongoing, datatransfer.Requested, datatransfer.Queued, datatransfer.AwaitingAcceptance, datatransfer.TransferFinished).ToJustRecord().\n		Action(func(chst *internal.ChannelState) error {\n			chst.ResponderPaused = true",
  "		FromMany(datatransfer.Ongoing, datatransfer.Requested, datatransfer.Queued, datatransfer.AwaitingAcceptance, datatransfer.TransferFinished).ToNoChange().\n		Action(func(chst *internal.ChannelState) error {\n			chst.ResponderPaused = true",
  "C11.1", "pause re-enters the status instead of only recording")
m("C11", "both-paused-or", CS,
  "	return c.InitiatorPaused() && c.ResponderPaused()",
  "	return c.InitiatorPaused() || c.ResponderPaused()",
  "C11.2", "both-paused is a disjunction")
m("C11", "self-paused-wrong-role", CS,
  "	if c.ic.SelfPeer == c.ic.Initiator {\n		return c.InitiatorPaused()\n	}\n	return c.ResponderPaused()",
  "	if c.ic.SelfPeer == c.ic.Responder {\n		return c.InitiatorPaused()\n	}\n	return c.ResponderPaused()",
  "C11.2", "self-paused reads the other party's flag")
m("C11", "pause-other-wrong-role", UT,
  "func (m *manager) pauseOther(chid datatransfer.ChannelID) error {\n	if chid.Responder == m.peerID {",
  "func (m *manager) pauseOther(chid datatransfer.ChannelID) error {\n	if chid.Initiator == m.peerID {",
  "C11.3", "counterparty's pause recorded on the local party's flag")
m("C11", "resume-message-says-paused", UT,
  "		return message.UpdateRequest(chid.ID, false)\n	}\n	return message.UpdateResponse(chid.ID, false)",
  "		return message.UpdateRequest(chid.ID, false)\n	}\n	return message.UpdateResponse(chid.ID, true)",
  "C11.3", "responder's resume announced as a pause")
m("C11", "pause-not-announced", IMPL,
  "	if err := m.dataTransferNetwork.SendMessage(ctx, chid.OtherParty(m.peerID), m.pauseMessage(chid)); err != nil {\n		err = fmt.Errorf(\"unable to send pause message: %w\", err)\n		_ = m.OnRequestDisconnected(chid, err)\n		return err\n	}\n\n	return m.pause(chid)",
  "	return m.pause(chid)",
  "C11.4", "local pause is not announced to the counterparty")
m("C11", "stay-paused-ignored", EV,
  "	if chst.SelfPaused() {\n		return datatransfer.ErrPause\n	}\n	return nil\n}\n\n// OnRequestCancelled",
  "	if chst.BothPaused() {\n		return datatransfer.ErrPause\n	}\n	return nil\n}\n\n// OnRequestCancelled",
  "C11.5", "transport resumes although the local side is still paused")
m("C11", "update-request-stay-paused-inverted", RR,
  "	if chst.SelfPaused() {\n		return nil, datatransfer.ErrPause\n	}\n	return nil, nil",
  "	if !chst.SelfPaused() {\n		return nil, datatransfer.ErrPause\n	}\n	return nil, nil",
  "C11.5", "pause signal inverted after the counterparty resumes")
m("C11", "resume-records-before-transport", IMPL,
  "	err := pausable.ResumeChannel(ctx, m.resumeMessage(chid), chid)\n	if err != nil {\n		log.Warnf(\"Error attempting to resume at transport level: %s\", err.Error())\n	}\n\n	return m.resume(chid)",
  "	err := pausable.ResumeChannel(ctx, m.pauseMessage(chid), chid)\n	if err != nil {\n		log.Warnf(\"Error attempting to resume at transport level: %s\", err.Error())\n	}\n\n	return m.resume(chid)",
  "C11.4", "resume announced with a pause message")

# ---------------- C12
SCH = "message/message1_1prime/schema.ipldsch"
TRQ = "message/message1_1prime/transfer_request.go"
TRS = "message/message1_1prime/transfer_response.go"
m("C12", "ipld-missing-body-check-removed", MSG,
  "	tresp := tm.(*TransferMessage1_1)\n\n	if (tresp.IsRequest && tresp.Request == nil) || (!tresp.IsRequest && tresp.Response == nil) {\n		return nil, errors.New(\"invalid/malformed message\")\n	}\n\n	if tresp.IsRequest {\n		return tresp.Request, nil\n	}\n	return tresp.Response, nil\n}\n",
  "	tresp := tm.(*TransferMessage1_1)\n\n	if tresp.IsRequest {\n		return tresp.Request, nil\n	}\n	return tresp.Response, nil\n}\n",
  "C12.2", "missing-body check removed from a decoder", "calibration")
m("C12", "wire-name-renamed", SCH,
  "(rename \"XferID\")\n	RestartChannel",
  "(rename \"XferId\")\n	RestartChannel",
  "C12.1", "request transfer id renamed on the wire")
m("C12", "field-order-changed", SCH,
  "	MessageType                    Int            (rename \"Type\")\n	RequestAccepted                Bool           (rename \"Acpt\")",
  "	RequestAccepted                Bool           (rename \"Acpt\")\n	MessageType                    Int            (rename \"Type\")",
  "C12.1", "response fields reordered (Go struct no longer matches by position)")
m("C12", "message-type-inserted", "message/types/message_types.go",
  "	VoucherResultMessage\n\n	RestartMessage",
  "	VoucherResultMessage\n	KeepAliveMessage\n\n	RestartMessage",
  "C12.1", "message type inserted in the middle renumbers Restart")
m("C12", "voucher-kind-widened", TRQ,
  "	return trq.MessageType == uint64(types.VoucherMessage) || trq.MessageType == uint64(types.NewMessage)",
  "	return trq.MessageType == uint64(types.VoucherMessage) || trq.MessageType == uint64(types.NewMessage) || trq.MessageType == uint64(types.RestartMessage)",
  "C12.3", "restart requests also classified as voucher requests")
m("C12", "validation-result-loses-restart", TRS,
  " ||\n		trsp.MessageType == uint64(types.RestartMessage)\n}",
  "\n}",
  "C12.3", "restart responses no longer carry a validation result")
m("C12", "cancel-response-type", MSG,
  "func CancelResponse(id datatransfer.TransferID) datatransfer.Response {\n	return &TransferResponse1_1{\n		MessageType: uint64(types.CancelMessage),",
  "func CancelResponse(id datatransfer.TransferID) datatransfer.Response {\n	return &TransferResponse1_1{\n		MessageType: uint64(types.CompleteMessage),",
  "C12.5", "cancel response built with the Complete type number")
m("C12", "voucher-type-dropped", MSG,
  "		MessageType:           uint64(types.VoucherMessage),\n		VoucherPtr:            voucher.Voucher,\n		VoucherTypeIdentifier: voucher.Type,",
  "		MessageType:           uint64(types.VoucherMessage),\n		VoucherPtr:            voucher.Voucher,",
  "C12.5", "voucher request loses its type identifier")
m("C12", "protocol-id-changed", "message.go",
  "\"/fil/datatransfer/1.2.0\"",
  "\"/fil/datatransfer/1.2.1\"",
  "C12.1", "protocol id changed: no peer speaks it")
m("C12", "extension-name-changed", "transport/graphsync/extension/gsextension.go",
  "graphsync.ExtensionName(\"fil/data-transfer/1.1\")",
  "graphsync.ExtensionName(\"fil/data-transfer/1.2\")",
  "C12.1", "graphsync extension renamed")
m("C12", "net-wrong-body", MSG,
  "	if tresp.IsRequest {\n		return tresp.Request, nil\n	}\n	return tresp.Response, nil\n}\n\n// FromNet can read a network stream to deserialize a GraphSyncMessage\nfunc FromIPLD",
  "	if !tresp.IsRequest {\n		return tresp.Request, nil\n	}\n	return tresp.Response, nil\n}\n\n// FromNet can read a network stream to deserialize a GraphSyncMessage\nfunc FromIPLD",
  "C12.2", "network decoder returns the absent body")
m("C12", "accepted-ignores-error", MSG,
  "		RequestAccepted:       validationErr == nil && validationResult.Accepted,",
  "		RequestAccepted:       validationResult.Accepted,",
  "C12.4", "validation response reports acceptance although validation erred", "calibration")
m("C12", "stor-not-nullable", SCH,
  "	SelectorPtr           nullable Any            (rename \"Stor\")",
  "	SelectorPtr                    Any            (rename \"Stor\")",
  "C12.1", "selector no longer nullable: cancel/update requests from old peers fail to decode")

# ---------------- C14
CM = "channelmonitor/channelmonitor.go"
m("C14", "second-close-allowed", CM,
  "	firstShutdown := mc.Shutdown()\n	if !firstShutdown {\n		// Channel was already shutdown, ignore this second attempt to shutdown\n		return\n	}\n",
  "	mc.Shutdown()\n",
  "C14.2", "channel closed with an error twice", "calibration")
m("C14", "queued-restart-lost", CM,
  "				mc.restartedAt = time.Now()\n				restartAgain = true\n				mc.restartQueued = false",
  "				mc.restartedAt = time.Now()\n				mc.restartQueued = false",
  "C14.3", "a restart queued during a restart is lost", "calibration")
m("C14", "queue-flag-never-cleared", CM,
  "				mc.restartedAt = time.Now()\n				restartAgain = true\n				mc.restartQueued = false",
  "				mc.restartedAt = time.Now()\n				restartAgain = true",
  "C14.3", "one queued restart makes the monitor restart forever")
m("C14", "marker-not-cleared", CM,
  "				// No other restarts queued up, so clear the restart time\n				mc.restartedAt = time.Time{}\n",
  "				// No other restarts queued up, so clear the restart time\n",
  "C14.3", "after the first restart no later restart is ever performed")
m("C14", "limit-off-by-one-unbounded", CM,
  "	if uint32(restartCount) > mc.cfg.MaxConsecutiveRestarts {",
  "	if uint32(restartCount) > mc.cfg.MaxConsecutiveRestarts && mc.cfg.RestartBackoff == 0 {",
  "C14.4", "attempt bound not enforced when a backoff is configured")
m("C14", "counter-read-outside-lock", CM,
  "	mc.restartLk.Lock()\n	mc.consecutiveRestarts++\n	restartCount := mc.consecutiveRestarts\n	mc.restartLk.Unlock()\n",
  "	mc.restartLk.Lock()\n	mc.consecutiveRestarts++\n	mc.restartLk.Unlock()\n	restartCount := mc.consecutiveRestarts\n",
  "C14.1", "attempt counter read outside its lock")
m("C14", "shutdown-without-marker", CM,
  "	mc.cancel() // cancel context so all go-routines exit\n	mc.cancel = nil\n",
  "	mc.cancel() // cancel context so all go-routines exit\n",
  "C14.2", "every shutdown reports 'first': the channel can be closed twice")
m("C14", "timer-when-disabled", CM,
  "	// Check if the complete timeout is disabled\n	if mc.cfg.CompleteTimeout == 0 {\n		return\n	}\n",
  "",
  "C14.5", "disabled complete-timeout closes the channel immediately")
m("C14", "acts-after-cleanup", CM,
  "		if channels.IsChannelCleaningUp(state) || channels.IsChannelTerminated(state) {",
  "		if channels.IsChannelTerminated(state) {",
  "C14.5", "monitor keeps restarting a channel that is cleaning up")
m("C14", "monitor-when-disabled", CM,
  "	if !m.enabled() {\n		return nil\n	}\n\n	m.lk.Lock()",
  "	m.lk.Lock()",
  "C14.6", "channels monitored although monitoring is disabled")
m("C14", "data-does-not-reset", CM,
  "		case datatransfer.DataSent, datatransfer.DataReceived:",
  "		case datatransfer.DataQueued:",
  "C14.5", "data progress does not reset the consecutive-restart count")
m("C14", "timeout-closes-directly", CM,
  "			err := fmt.Errorf(\"%s: timed out waiting %s for Accept message from remote peer\",\n				mc.chid, mc.cfg.AcceptTimeout)\n			mc.closeChannelAndShutdown(err)",
  "			err := fmt.Errorf(\"%s: timed out waiting %s for Accept message from remote peer\",\n				mc.chid, mc.cfg.AcceptTimeout)\n			_ = mc.mgr.CloseDataTransferChannelWithError(mc.parentCtx, mc.chid, err)",
  "C14.2", "accept timeout closes the channel even after the monitor shut down")

# ---------------- C15
NET = "network/libp2p_impl.go"
m("C15", "backoff-ignores-cancel", NET,
  "		select {\n		case <-ctx.Done():\n			return nil, ctx.Err()\n		case <-time.After(d):\n		}",
  "		<-time.After(d)",
  "C15.1", "context cancellation ignored during backoff", "calibration")
m("C15", "cap-not-checked", NET,
  "		if nAttempts >= impl.maxStreamOpenAttempts {",
  "		if nAttempts >= impl.maxStreamOpenAttempts && impl.backoffFactor > 1 {",
  "C15.1", "attempt cap disabled")
m("C15", "no-reset-on-write-error", NET,
  "	if err = dtnet.msgToStream(ctx, s, outgoing); err != nil {\n		if err2 := s.Reset(); err2 != nil {\n			log.Error(err)\n			span.RecordError(err2)\n			span.SetStatus(codes.Error, err2.Error())\n			return err2\n		}\n		span.RecordError(err)",
  "	if err = dtnet.msgToStream(ctx, s, outgoing); err != nil {\n		span.RecordError(err)",
  "C15.2", "failed write leaves the stream open")
m("C15", "write-error-swallowed", NET,
  "		span.RecordError(err)\n		span.SetStatus(codes.Error, err.Error())\n		return err\n	}\n\n	return s.Close()",
  "		span.RecordError(err)\n		span.SetStatus(codes.Error, err.Error())\n	}\n\n	return s.Close()",
  "C15.2", "failed write reported as success")
m("C15", "restart-existing-to-request-handler", NET,
  "				if receivedRequest.IsRestartExistingChannelRequest() {\n					dtnet.receiver.ReceiveRestartExistingChannelRequest(ctx, p, receivedRequest)\n				} else {",
  "				if receivedRequest.IsRestartExistingChannelRequest() && receivedRequest.IsPull() {\n					dtnet.receiver.ReceiveRestartExistingChannelRequest(ctx, p, receivedRequest)\n				} else {",
  "C15.3", "restart-existing requests for push channels handed to the request handler")
m("C15", "handler-after-decode-error", NET,
  "			_ = s.SetReadDeadline(time.Time{})\n			return\n		}\n		_ = s.SetReadDeadline(time.Time{})",
  "			_ = s.SetReadDeadline(time.Time{})\n			if received == nil {\n				return\n			}\n		}\n		_ = s.SetReadDeadline(time.Time{})",
  "C15.3", "a message is dispatched although decoding reported an error")
m("C15", "no-default-protocol", NET,
  "		default:\n			s.Reset() // nolint: errcheck,gosec\n			go dtnet.receiver.ReceiveError(fmt.Errorf(\"unrecognized protocol on stream: %s\", s.Protocol()))\n			return\n		}\n\n		if err != nil {",
  "		}\n\n		if err != nil {",
  "C15.4", "unrecognised protocol crashes the stream handler (defect D6)")
m("C15", "double-encode", NET,
  "	if err := msg.ToNet(s); err != nil {\n		log.Debugf(\"error: %s\", err)\n		return err\n	}\n\n	return nil",
  "	if err := msg.ToNet(s); err != nil {\n		log.Debugf(\"error: %s\", err)\n		return err\n	}\n\n	return msg.ToNet(s)",
  "C15.2", "message delivered twice")
m("C15", "malformed-not-reported", NET,
  "				s.Reset() // nolint: errcheck,gosec\n				go dtnet.receiver.ReceiveError(err)\n				log.Debugf(\"net handleNewStream from %s error: %s\", p, err)",
  "				s.Reset() // nolint: errcheck,gosec\n				log.Debugf(\"net handleNewStream from %s error: %s\", p, err)",
  "C15.3", "malformed stream not reported")

# ---------------- C17
CSB = "channelsubscriptions/channelsubscriptions.go"
m("C17", "table-keyed-by-transfer-id", CSB,
  "	cbs := cs.subscriptions[state.ChannelID()]",
  "	cbs := cs.subscriptions[datatransfer.ChannelID{ID: state.TransferID()}]",
  "C17.3", "per-transfer subscribers looked up by transfer id only", "seeded/C17a")
m("C17", "early-unsubscribe", CSB,
  "func (cs *ChannelSubscriptions) Stop() {",
  "// Unsubscribe drops the subscribers registered for the given channel\nfunc (cs *ChannelSubscriptions) Unsubscribe(chid datatransfer.ChannelID) {\n	cs.subscriptionsLk.Lock()\n	defer cs.subscriptionsLk.Unlock()\n	delete(cs.subscriptions, chid)\n}\n\nfunc (cs *ChannelSubscriptions) Stop() {",
  "C17.3", "per-transfer subscriber released before the channel terminated", "seeded/C17b")
m("C17", "release-on-cleanup", CSB,
  "	if channels.IsChannelTerminated(state.Status()) {",
  "	if channels.IsChannelCleaningUp(state.Status()) {",
  "C17.3", "per-transfer subscriber released before the terminal event is announced")
m("C17", "publish-twice", IMPL,
  "	err := m.pubSub.Publish(internalEvent{evt, chst})\n	if err != nil {",
  "	err := m.pubSub.Publish(internalEvent{evt, chst})\n	if err == nil && evt.Code == datatransfer.Error {\n		err = m.pubSub.Publish(internalEvent{evt, chst})\n	}\n	if err != nil {",
  "C17.1", "error events announced twice")
m("C17", "stale-state-in-event", CH,
  "	c.notifier(evt, c.fromInternalChannelState(realChannel))",
  "	st, _ := c.GetByID(context.TODO(), datatransfer.ChannelID{ID: realChannel.TransferID, Initiator: realChannel.Initiator, Responder: realChannel.Responder})\n	c.notifier(evt, st)",
  "C17.1", "subscribers receive a later state than the one resulting from the event")
m("C17", "extra-publisher", IMPL,
  "	m.channelMonitor.Shutdown()\n	m.spansIndex.EndAll()",
  "	m.channelMonitor.Shutdown()\n	_ = m.pubSub.Publish(internalEvent{evt: datatransfer.Event{Code: datatransfer.Disconnected}})\n	m.spansIndex.EndAll()",
  "C17.2", "an event that was never applied is announced")
m("C17", "subscribe-after-open", IMPL,
  "	if options := tc.TransportOptions(); len(options) > 0 {\n		m.transportOptions.SetOptions(chid, options)\n	}\n\n	if eventsCb := tc.EventsCb(); eventsCb != nil {\n		m.channelSubscriptions.Subscribe(chid, eventsCb)\n	}\n\n	if err := m.channels.Open(chid); err != nil {\n		return chid, err\n	}\n",
  "	if options := tc.TransportOptions(); len(options) > 0 {\n		m.transportOptions.SetOptions(chid, options)\n	}\n\n	if err := m.channels.Open(chid); err != nil {\n		return chid, err\n	}\n\n	if eventsCb := tc.EventsCb(); eventsCb != nil {\n		m.channelSubscriptions.Subscribe(chid, eventsCb)\n	}\n",
  "C17.3", "per-transfer subscriber misses the Open event")
m("C17", "dispatcher-wrong-state", IMPL,
  "	cb(ie.evt, ie.state)\n	return nil",
  "	cb(ie.evt, nil)\n	return nil",
  "C17.1", "subscribers called without the resulting state")

# ---------------- C18
TC = "impl/timecounter.go"
m("C18", "non-atomic-counter", TC,
  "	counter := atomic.AddUint64(&tc.counter, 1)\n	return counter",
  "	_ = atomic.LoadUint64\n	tc.counter++\n	return tc.counter",
  "C18.1", "non-atomic id counter", "calibration")
m("C18", "load-then-add", TC,
  "	counter := atomic.AddUint64(&tc.counter, 1)\n	return counter",
  "	counter := atomic.LoadUint64(&tc.counter) + 1\n	atomic.StoreUint64(&tc.counter, counter)\n	return counter",
  "C18.1", "two concurrent opens can draw the same id")
m("C18", "seed-from-seconds", TC,
  "	return &timeCounter{counter: uint64(time.Now().UnixNano())}",
  "	return &timeCounter{counter: uint64(time.Now().Unix())}",
  "C18.1", "a later manager starts below the ids of an earlier one")
m("C18", "id-from-clock", UT,
  "	tid := datatransfer.TransferID(m.transferIDGen.next())",
  "	_ = m.transferIDGen.next()\n	tid := datatransfer.TransferID(uint64(len(to)) + uint64(baseCid.ByteLen()))",
  "C18.2", "ids drawn from the clock collide under concurrency")
m("C18", "duplicate-create-proceeds", IMPL,
  "	chid, err := m.channels.CreateNew(m.peerID, req.TransferID(), baseCid, selector, voucher,\n		m.peerID, m.peerID, requestTo) // initiator = us, sender = us, receiver = them\n	if err != nil {\n		return chid, err\n	}",
  "	chid, err := m.channels.CreateNew(m.peerID, req.TransferID(), baseCid, selector, voucher,\n		m.peerID, m.peerID, requestTo) // initiator = us, sender = us, receiver = them\n	if err != nil {\n		log.Warnf(\"channel exists: %s\", err)\n		chid = datatransfer.ChannelID{Initiator: m.peerID, Responder: requestTo, ID: req.TransferID()}\n	}",
  "C18.3", "a duplicate id re-opens the existing channel")
m("C18", "create-via-send", CH,
  "		log.Errorw(\"failed to create new tracking channel for data-transfer\", \"channelID\", chid, \"err\", err)\n		return datatransfer.ChannelID{}, err",
  "		log.Errorw(\"failed to create new tracking channel for data-transfer\", \"channelID\", chid, \"err\", err)\n		return chid, c.stateMachines.Send(chid, datatransfer.Restart)",
  "C18.3", "creating over an existing id restarts the existing channel")
m("C18", "duplicate-request-accepted", RR,
  "	if err != nil {\n		log.Errorw(\"failed to create tracking channel\", \"channelID\", chid, \"err\", err)\n		return result, err\n	}",
  "	if err != nil {\n		log.Errorw(\"failed to create tracking channel\", \"channelID\", chid, \"err\", err)\n	}",
  "C18.3", "a duplicate incoming request disturbs the existing channel")

# ---------------- C19
m("C19", "last-result-unguarded", CS,
  "	if len(c.ic.VoucherResults) == 0 {\n		return datatransfer.TypedVoucher{}\n	}\n",
  "",
  "C19.1", "LastVoucherResult panics on a channel without results (defect D1)")
m("C19", "rejection-result-dropped", RR,
  "	if result.VoucherResult != nil {\n		if err := m.channels.NewVoucherResult(chid, *result.VoucherResult); err != nil {\n			return err\n		}\n	}\n\n	return m.channels.Error(chid, datatransfer.ErrRejected)",
  "	return m.channels.Error(chid, datatransfer.ErrRejected)",
  "C19.6", "the voucher result of a rejection is dropped", "calibration")
m("C19", "only-last-result-kept", FSM,
  "			chst.VoucherResults = append(chst.VoucherResults,\n				internal.EncodedVoucherResult{",
  "			chst.VoucherResults = append(chst.VoucherResults[:0],\n				internal.EncodedVoucherResult{",
  "C19.4", "only the last voucher result is kept", "calibration")
m("C19", "record-before-send", IMPL,
  "	if err := m.dataTransferNetwork.SendMessage(ctx, chst.OtherPeer(), updateRequest); err != nil {\n		err = fmt.Errorf(\"unable to send request: %w\", err)\n		_ = m.OnRequestDisconnected(channelID, err)\n		span.RecordError(err)\n		span.SetStatus(codes.Error, err.Error())\n		return err\n	}\n	return m.channels.NewVoucher(channelID, voucher)",
  "	if err := m.channels.NewVoucher(channelID, voucher); err != nil {\n		return err\n	}\n	if err := m.dataTransferNetwork.SendMessage(ctx, chst.OtherPeer(), updateRequest); err != nil {\n		err = fmt.Errorf(\"unable to send request: %w\", err)\n		_ = m.OnRequestDisconnected(channelID, err)\n		span.RecordError(err)\n		span.SetStatus(codes.Error, err.Error())\n		return err\n	}\n	return nil",
  "C19.5", "a voucher whose send failed is still recorded", "seeded/C19a")
m("C19", "migration-initiator-from-sender", MIG,
  "		Initiator:            oldChannelState.Initiator,",
  "		Initiator:            oldChannelState.Sender,",
  "C13.1", "migrated pull channels report the wrong initiator / direction", "seeded/C19b")
m("C19", "ispull-by-sender", CS,
  "	return c.ic.Initiator == c.ic.Recipient",
  "	return c.ic.Initiator != c.ic.Sender",
  "C19.2", "IsPull derived from the sender (differs when sender == recipient)")
m("C19", "other-peer-wrong", CS,
  "	if c.ic.Sender == c.ic.SelfPeer {\n		return c.ic.Recipient\n	}\n	return c.ic.Sender",
  "	if c.ic.Initiator == c.ic.SelfPeer {\n		return c.ic.Recipient\n	}\n	return c.ic.Sender",
  "C19.2", "other peer computed from the initiator: wrong for pull initiators")
m("C19", "first-voucher-is-last", CS,
  "	ev := c.ic.Vouchers[0]\n	return",
  "	ev := c.ic.Vouchers[len(c.ic.Vouchers)-1]\n	return",
  "C19.2", "Voucher() returns the latest voucher instead of the opening one")
m("C19", "received-voucher-not-recorded", RR,
  "	return nil, m.channels.NewVoucher(chid, voucher)\n}",
  "	_ = voucher\n	return nil, nil\n}",
  "C19.6", "responder does not record vouchers it received")
m("C19", "responder-derivation", CH,
  "	if dataSender == initiator {\n		responder = dataReceiver\n	} else {\n		responder = dataSender\n	}",
  "	if dataReceiver == initiator {\n		responder = dataReceiver\n	} else {\n		responder = dataSender\n	}",
  "C19.3", "responder of a pull channel recorded as the initiator")
m("C19", "log-exposed", CS,
  "	vouchers := make([]datatransfer.TypedVoucher, 0, len(c.ic.Vouchers))\n	for _, encoded := range c.ic.Vouchers {\n		vouchers = append(vouchers, datatransfer.TypedVoucher{Voucher: encoded.Voucher.Node, Type: encoded.Type})\n	}\n	return vouchers",
  "	var vouchers []datatransfer.TypedVoucher\n	for i := 0; i <= len(c.ic.Vouchers); i++ {\n		encoded := c.ic.Vouchers[i]\n		vouchers = append(vouchers, datatransfer.TypedVoucher{Voucher: encoded.Voucher.Node, Type: encoded.Type})\n	}\n	return vouchers",
  "C19.1", "Vouchers() indexes one past the end")

# ---------------- C16
m("C16", "cleanup-leaves-mapping", GS,
  "	// Clean up mapping from gs key to channel ID\n	c.t.requestIDToChannelID.deleteRefs(c.channelID)\n",
  "",
  "C16.3", "request→channel mapping left behind after cleanup", "calibration")
m("C16", "receive-error-wrong-channels", GS,
  "		if chid.Initiator != p && chid.Responder != p {\n			return\n		}",
  "		if chid.OtherParty(p) != t.peerID {\n			return\n		}",
  "C16.1", "receive error for one peer reported on channels with other peers", "seeded/C16a")
m("C16", "store-flag-reset-on-error", GS,
  "	err := c.t.gs.RegisterPersistenceOption(\"data-transfer-\"+c.channelID.String(), lsys)\n	if err != nil {\n		return err\n	}\n\n	c.storeRegistered = true\n\n	return nil",
  "	err := c.t.gs.RegisterPersistenceOption(\"data-transfer-\"+c.channelID.String(), lsys)\n	c.storeRegistered = err == nil\n	return err",
  "C16.5", "a second UseStore (restart) un-marks the still-registered per-channel store", "seeded/C16b")
m("C16", "unknown-request-still-reported", GS,
  "func (t *Transport) gsNetworkSendErrorListener(p peer.ID, request graphsync.RequestData, gserr error) {\n	// Fire an error if the graphsync request was made by this node or the remote peer\n	chid, ok := t.requestIDToChannelID.load(request.ID())\n	if !ok {\n		return\n	}",
  "func (t *Transport) gsNetworkSendErrorListener(p peer.ID, request graphsync.RequestData, gserr error) {\n	// Fire an error if the graphsync request was made by this node or the remote peer\n	chid, ok := t.requestIDToChannelID.load(request.ID())\n	if !ok && p == t.peerID {\n		return\n	}",
  "C16.1", "send error for an unknown request produces a channel event")
m("C16", "mapping-wrong-channel", GS,
  "	c.t.requestIDToChannelID.set(requestID, true, c.channelID)",
  "	c.t.requestIDToChannelID.set(requestID, true, datatransfer.ChannelID{ID: c.channelID.ID, Initiator: c.channelID.Responder, Responder: c.channelID.Initiator})",
  "C16.2", "incoming request mapped to the mirrored channel id")
m("C16", "pause-after-cancel", GS,
  "	// Check if the channel was already cancelled\n	if c.requestID == nil {\n		log.Debugf(\"%s: channel was cancelled so not pausing channel\", c.channelID)\n		return nil\n	}\n",
  "",
  "C16.4", "pause dereferences a cleared request id")
m("C16", "partial-is-complete", GS,
  "	if status != graphsync.RequestCompletedFull {\n		statusStr",
  "	if status != graphsync.RequestCompletedFull && status != graphsync.RequestCompletedPartial {\n		statusStr",
  "C01.4", "partial response reported as clean completion")
m("C16", "count-blocks-not-on-wire", GS,
  "	if block.BlockSizeOnWire() == 0 {\n		return\n	}\n\n	chid, ok := t.requestIDToChannelID.load(request.ID())\n	if !ok {\n		return\n	}\n\n	if err := t.events.OnDataSent",
  "	chid, ok := t.requestIDToChannelID.load(request.ID())\n	if !ok {\n		return\n	}\n\n	if err := t.events.OnDataSent",
  "C07.5", "blocks not put on the wire produce sent accounting")
m("C16", "lookup-by-wrong-id", GS,
  "func (t *Transport) gsRequestProcessingListener(p peer.ID, request graphsync.RequestData, requestCount int) {\n\n	chid, ok := t.requestIDToChannelID.load(request.ID())",
  "func (t *Transport) gsRequestProcessingListener(p peer.ID, request graphsync.RequestData, requestCount int) {\n\n	chid, ok := t.requestIDToChannelID.any(request.ID(), graphsync.RequestID{})",
  "C16.1", "event routed by a lookup that is not for the callback's own request only")
m("C16", "store-not-unregistered", GS,
  "	if c.hasStore() {\n		// Unregister the channel's store from graphsync",
  "	if c.hasStore() && c.isOpen {\n		// Unregister the channel's store from graphsync",
  "C16.3", "store of a never-opened channel outlives the channel")

# ---------------- C20
TO = "transportoptions/transportoptions.go"
m("C20", "shutdown-holds-channels-lock", GS,
  "	t.dtChannelsLk.RLock()\n	dtChannels := make([]*dtChannel, 0, len(t.dtChannels))\n	for _, ch := range t.dtChannels {\n		dtChannels = append(dtChannels, ch)\n	}\n	t.dtChannelsLk.RUnlock()\n",
  "	t.dtChannelsLk.RLock()\n	defer t.dtChannelsLk.RUnlock()\n	dtChannels := make([]*dtChannel, 0, len(t.dtChannels))\n	for _, ch := range t.dtChannels {\n		dtChannels = append(dtChannels, ch)\n	}\n",
  "C20.3", "Shutdown waits for channels while holding the channels lock (defect D9)")
m("C20", "cleanup-under-channels-lock", GS,
  "	t.dtChannelsLk.Lock()\n\n	ch, ok := t.dtChannels[chid]\n	if ok {\n		// Remove the reference to the channel from the channels map\n		delete(t.dtChannels, chid)\n	}\n\n	t.dtChannelsLk.Unlock()\n\n	// Clean up the channel\n	if ok {\n		ch.cleanup()\n	}",
  "	t.dtChannelsLk.Lock()\n	defer t.dtChannelsLk.Unlock()\n\n	ch, ok := t.dtChannels[chid]\n	if !ok {\n		return\n	}\n	// Remove the reference to the channel from the channels map\n	delete(t.dtChannels, chid)\n\n	// Clean up the channel\n	ch.cleanup()",
  "C20.3", "lock-order inversion dtChannelsLk → dtChannel.lk against the request hook", "seeded/C20a")
m("C20", "progress-entry-shared-by-pointer", CA,
  "	values map[datatransfer.ChannelID]progressState\n",
  "	values map[datatransfer.ChannelID]*progressState\n",
  "C20.1", "cached limit read without the lock once entries are shared by pointer", "seeded/C20b",
  more=[("		values: make(map[datatransfer.ChannelID]progressState),", "		values: make(map[datatransfer.ChannelID]*progressState),"),
        ("func (pc *progressCache) getValue(chid datatransfer.ChannelID, readProgress readProgressFn) (progressState, error) {", "func (pc *progressCache) getValue(chid datatransfer.ChannelID, readProgress readProgressFn) (*progressState, error) {"),
        ("		return progressState{}, err\n	}\n	newValue := progressState{", "		return nil, err\n	}\n	newValue := &progressState{"),
        ("	value, ok = pc.values[chid]\n	if !ok {\n		return\n	}\n	value.dataLimit = newLimit\n	pc.values[chid] = value", "	value.dataLimit = newLimit")])
m("C20", "requestid-read-unlocked", GS,
  "func (c *dtChannel) pause(ctx context.Context) error {\n	c.lk.Lock()\n	defer c.lk.Unlock()\n",
  "func (c *dtChannel) pause(ctx context.Context) error {\n",
  "C20.1", "pause reads the channel's request state without the channel lock")
m("C20", "options-read-unlocked", TO,
  "	to.optionsLk.RLock()\n	defer to.optionsLk.RUnlock()\n	options, ok := to.options[chid]",
  "	options, ok := to.options[chid]",
  "C20.1", "transport options read without their lock")
m("C20", "monitor-counter-unlocked", "channelmonitor/channelmonitor.go",
  "func (mc *monitoredChannel) resetConsecutiveRestarts() {\n	mc.restartLk.Lock()\n	defer mc.restartLk.Unlock()\n",
  "func (mc *monitoredChannel) resetConsecutiveRestarts() {\n",
  "C20.1", "restart counter reset without its lock")
m("C20", "cancel-called-unlocked", GS,
  "	// Cancel the graphsync request\n	c.lk.Lock()\n	errch := c.cancel(ctx)\n	c.lk.Unlock()",
  "	// Cancel the graphsync request\n	errch := c.cancel(ctx)",
  "C20.1", "cancel (contract: under the lock) called without it")
m("C20", "nonatomic-cache-word", CA,
  "		currentIndex := atomic.LoadInt64(value)",
  "		currentIndex := *value",
  "C20.2", "high-water mark read non-atomically")
m("C20", "close-nil-errch", GS,
  "	if errch == nil {\n		return nil\n	}\n",
  "",
  "C20.5", "close blocks on a nil channel")

# ---------------- regression mutants for seeded changes first missed, now caught
m("C06", "typed-node-not-representation", "channels/internal/internalchannel.go",
  "		node = sn.Node\n		if tn, ok := node.(schema.TypedNode); ok {\n			node = tn.Representation()\n		}",
  "		node = sn.Node\n		if tn, ok := node.(schema.TypedNode); ok {\n			_ = tn.Representation()\n		}",
  "C06.1", "typed vouchers/selectors stored in type-level form differ after reopen", "seeded/C06b")
m("C11", "pause-signal-closes", RC,
  "	if receiveErr == datatransfer.ErrPause {\n		return r.manager.transport.(datatransfer.PauseableTransport).PauseChannel(ctx, chid)\n	}\n\n	if receiveErr != nil {",
  "	if receiveErr == datatransfer.ErrPause && response != nil {\n		return r.manager.transport.(datatransfer.PauseableTransport).PauseChannel(ctx, chid)\n	}\n\n	if receiveErr != nil {",
  "C04.5", "a stay-paused outcome of a bare update closes the transport channel", "seeded/C11b")
m("C14", "duplicate-add-returns-live-monitor", CM,
  "		log.Warnf(\"ignoring add %s channel %s: %s channel with that id already exists\",\n			tp, chid, tp)\n		return nil",
  "		log.Warnf(\"ignoring add %s channel %s: %s channel with that id already exists\",\n			tp, chid, tp)\n		return m.channels[chid]",
  "C14.6", "a failed restart send shuts down the live monitor of the channel", "seeded/C14b")
m("C15", "reset-error-shadows-write-error", NET,
  "		if err2 := s.Reset(); err2 != nil {\n			log.Error(err)\n			span.RecordError(err2)\n			span.SetStatus(codes.Error, err2.Error())\n			return err2\n		}",
  "		if err = s.Reset(); err != nil {\n			log.Error(err)\n			span.RecordError(err)\n			span.SetStatus(codes.Error, err.Error())\n			return err\n		}",
  "C15.2", "a failed write is reported as success when the reset succeeds", "seeded/C15b")
m("C18", "duplicate-request-fails-existing", RR,
  "	result, err := m.acceptRequest(chid, incoming)\n",
  "	result, err := m.acceptRequest(chid, incoming)\n	if err != nil {\n		_ = m.channels.Error(chid, err)\n	}\n",
  "C18.3", "a duplicate new-request fails the existing healthy channel", "seeded/C18b")

# ---------------- round-2 seeded regressions
m("C04", "data-limit-only-raised", RR,
  "	if result.DataLimit != chst.DataLimit() {",
  "	if (result.DataLimit == 0 && chst.DataLimit() != 0) || result.DataLimit > chst.DataLimit() {",
  "C04.8", "a lowered data limit is not recorded", "seeded/C04r2b")
m("C04", "restart-opens-transport-although-rejected", RC,
  "		if (response.IsNew() || response.IsRestart()) && response.Accepted() && !incoming.IsPull() {",
  "		if (response.IsNew() && response.Accepted() || response.IsRestart()) && !incoming.IsPull() {",
  "C04.5", "a rejected push restart still opens the transport channel", "seeded/C04r2a")
m("C09", "async-cancel-on-caller-context", IMPL,
  "		sctx, cancel := context.WithTimeout(context.Background(), cancelSendTimeout)",
  "		sctx, cancel := context.WithTimeout(ctx, cancelSendTimeout)",
  "C09.5", "cancel message lost once the caller releases its context", "seeded/C09r2a")
m("C10", "restart-state-read-before-processing", RC,
  "	response, receiveErr := r.manager.OnRequestReceived(chid, incoming)\n",
  "	var channel datatransfer.ChannelState\n	if incoming.IsRestart() && !incoming.IsPull() {\n		channel, _ = r.manager.channels.GetByID(ctx, chid)\n	}\n	response, receiveErr := r.manager.OnRequestReceived(chid, incoming)\n",
  "C10.7", "transport re-opened with channel state read before the restart was processed", "seeded/C10r2b",
  more=[("			var channel datatransfer.ChannelState\n			if response.IsRestart() {\n				var err error\n				channel, err = r.manager.channels.GetByID(ctx, chid)\n				if err != nil {\n					return err\n				}\n			}\n\n", "")])
m("C14", "monitor-added-after-send", IMPL,
  "	monitoredChan := m.channelMonitor.AddPushChannel(chid)\n",
  "",
  "C14.7", "an Accept that arrives promptly is missed and the accept timeout closes a healthy channel", "seeded/C14r2b",
  more=[("		// If push channel monitoring is enabled, shutdown the monitor as it\n		// wasn't possible to start the data transfer\n		if monitoredChan != nil {\n			monitoredChan.Shutdown()\n		}\n\n		return chid, err\n	}\n\n	return chid, nil",
         "		return chid, err\n	}\n	m.channelMonitor.AddPushChannel(chid)\n	return chid, nil")])
m("C14", "unsent-request-keeps-monitor", IMPL,
  "		if monitoredChan != nil {\n			monitoredChan.Shutdown()\n		}\n\n		return chid, err",
  "		_ = monitoredChan\n		return chid, err",
  "C14.7", "the monitor of a request that was never sent keeps running and later closes/restarts the channel")
m("C19", "restart-records-unsent-result", RS,
  "	// send a libp2p message to the other peer asking to send a \"restart push request\"\n",
  "	if err := m.recordAcceptedValidationEvents(channel, result); err != nil {\n		return err\n	}\n	// send a libp2p message to the other peer asking to send a \"restart push request\"\n",
  "C19.6", "the responder records a voucher result it never sent", "seeded/C19r2b")
m("C20", "close-stops-monitor-inside-callback", IMPL,
  "	// Close the channel on the local transport\n	err = m.transport.CloseChannel(ctx, chid)\n	if err != nil {\n		span.RecordError(err)",
  "	m.channelMonitor.ShutdownChannel(chid)\n	// Close the channel on the local transport\n	err = m.transport.CloseChannel(ctx, chid)\n	if err != nil {\n		span.RecordError(err)",
  "C20.3", "closing from inside a subscriber unsubscribes under the pubsub lock: deadlock", "seeded/C20r2b",
  more=[("// onShutdown shuts down all monitored channels. It is called when the run\n", "func (m *Monitor) ShutdownChannel(chid datatransfer.ChannelID) {\n	m.lk.RLock()\n	ch, ok := m.channels[chid]\n	m.lk.RUnlock()\n	if ok {\n		ch.Shutdown()\n	}\n}\n\n// onShutdown shuts down all monitored channels. It is called when the run\n", CM)])
m("C20", "cancel-request-reaches-manager-under-lock", GS,
  "		if dtRequest.IsCancel() {\n			hookActions.TerminateWithError(errors.New(\"graphsync request cannot carry a cancel request\"))\n			return\n		}\n",
  "",
  "C20.3", "a cancel request in a graphsync request makes the hook re-acquire the channel lock it holds (D5)", "fix/D5")
m("C20", "cancel-refusal-inverted", GS,
  "		if dtRequest.IsCancel() {\n			hookActions.TerminateWithError(errors.New(\"graphsync request cannot carry a cancel request\"))",
  "		if !dtRequest.IsCancel() {\n			hookActions.TerminateWithError(errors.New(\"graphsync request cannot carry a cancel request\"))",
  "C20.3", "only cancel requests reach the manager under the channel lock")
m("C20", "channels-for-peer-relocks", GS,
  "			if t.dtChannels[chid] != nil && t.dtChannels[chid].requestID != nil && (*t.dtChannels[chid].requestID) == requestID {",
  "			ch, err := t.getDTChannel(chid)\n			if err == nil && ch.requestID != nil && (*ch.requestID) == requestID {",
  "C20.3", "read lock re-acquired while held: a writer in between deadlocks both", "seeded/C20r2a")
m("C07", "refused-cas-not-retried", CA,
  "	for {\n		currentIndex := atomic.LoadInt64(value)\n		if newIndex <= currentIndex {\n			return false, nil\n		}\n		if atomic.CompareAndSwapInt64(value, currentIndex, newIndex) {\n			return true, nil\n		}\n	}",
  "	currentIndex := atomic.LoadInt64(value)\n	if newIndex <= currentIndex {\n		return false, nil\n	}\n	return atomic.CompareAndSwapInt64(value, currentIndex, newIndex), nil",
  "C07.2", "a report that loses the CAS race is dropped although it is above the mark", "seeded/C07r2a")
m("C05", "restart-base-cid-by-hash", RS,
  "	if req.BaseCid() != channel.BaseCID() {",
  "	if !bytes.Equal(req.BaseCid().Hash(), channel.BaseCID().Hash()) {",
  "C05.3", "restart request accepted with a different base CID", "seeded/C05r2b",
  more=[("import (\n", "import (\n	\"bytes\"\n")])
m("C05", "extension-checks-own-role-only", GS,
  "		if (chid != datatransfer.ChannelID{ID: msg.TransferID(), Initiator: p, Responder: t.peerID}) {",
  "		if chid.Responder != t.peerID || chid.ID != msg.TransferID() {",
  "C05.2", "a stranger's request is applied to the counterparty's channel", "seeded/C05r2a")
m("C03", "completed-again-skips-finalization", EV,
  "	if chst.RequiresFinalization() {\n		return m.channels.BeginFinalizing(chid)",
  "	if chst.RequiresFinalization() && chst.Status() != datatransfer.Finalizing {\n		return m.channels.BeginFinalizing(chid)",
  "C03.6", "a channel waiting for final settlement completes without it", "seeded/C03r2b")
m("C08", "reply-pause-ignores-limits", IMPL,
  "	response, msgErr := message.ValidationResultResponse(messageType, chst.TransferID(), result, err,\n		result.LeaveRequestPaused(chst))",
  "	response, msgErr := message.ValidationResultResponse(messageType, chst.TransferID(), result, err, result.ForcePause)",
  "C04.7", "revalidation reply says unpaused although the request stays paused", "seeded/C01r2a")

# ---------------- round-2 (second batch) seeded regressions
m("C08", "failed-pause-message-swallows-pause", EV,
  "		if err := m.dataTransferNetwork.SendMessage(ctx, chid.Initiator, msg); err != nil {\n			return err\n		}\n	}\n\n	return err\n}\n\n// OnDataQueued",
  "		if err := m.dataTransferNetwork.SendMessage(ctx, chid.Initiator, msg); err != nil {\n			return m.OnRequestDisconnected(chid, err)\n		}\n	}\n\n	return err\n}\n\n// OnDataQueued",
  "C08.5", "the crossing report returns nil: the transport is not paused and blocks keep arriving", "seeded/C08r2a")
m("C08", "limit-below-progress-underflows", MG,
  "	return vr.DataLimit != 0 && limitFactor >= vr.DataLimit",
  "	if vr.DataLimit == 0 {\n		return false\n	}\n	remaining := vr.DataLimit - limitFactor\n	return remaining <= 0",
  "C08.2", "a new limit below the progress made resumes the channel", "seeded/C08r2b")
m("C11", "self-pause-ignored-on-non-update", EV,
  "	err := m.resumeOther(chid)\n	if err != nil {\n		return err\n	}\n	chst, err := m.channels.GetByID(context.TODO(), chid)",
  "	err := m.resumeOther(chid)\n	if err != nil {\n		return err\n	}\n	if !response.IsUpdate() {\n		return nil\n	}\n	chst, err := m.channels.GetByID(context.TODO(), chid)",
  "C11.5", "the initiator's own pause is overridden when the responder's resume arrives on a non-update response", "seeded/C11r2a")
m("C11", "resume-skipped-while-initiator-paused", IMPL,
  "		if chst.ResponderPaused() && !chst.Status().InFinalization() {\n			return m.transport.(datatransfer.PauseableTransport).ResumeChannel",
  "		if chst.ResponderPaused() && !chst.InitiatorPaused() && !chst.Status().InFinalization() {\n			return m.transport.(datatransfer.PauseableTransport).ResumeChannel",
  "C04.7", "the responder's transport stays paused for good when it lifts its pause while the initiator is paused", "seeded/C11r2b")
m("C12", "network-form-not-canonical", TRQ,
  "	return ipld.EncodeStreaming(w, trq.toIPLD(), dagcbor.Encode)",
  "	return ipld.EncodeStreaming(w, trq.toIPLD(), dagcbor.EncodeOptions{AllowLinks: true}.Encode)",
  "C12.2", "request bytes lose the canonical map ordering", "seeded/C12r2b")
m("C13", "stage-log-nil-guard-dropped", "types.go",
  "func (cs *ChannelStages) AddLog(stage, msg string) {\n	if cs == nil {\n		return\n	}\n",
  "func (cs *ChannelStages) AddLog(stage, msg string) {\n",
  "C13.6", "first event on a migrated channel without a stage log panics", "seeded/C13r2a")
m("C18", "transfer-id-handed-back", TC,
  "func (tc *timeCounter) next() uint64 {",
  "func (tc *timeCounter) release() {\n	atomic.AddUint64(&tc.counter, ^uint64(0))\n}\n\nfunc (tc *timeCounter) next() uint64 {",
  "C18.1", "an id can be issued twice under concurrent opens", "seeded/C18r2a")
m("C18", "cache-primed-before-begin", CH,
  "	chid := datatransfer.ChannelID{Initiator: initiator, Responder: responder, ID: tid}\n	err := c.stateMachines.Begin(",
  "	chid := datatransfer.ChannelID{Initiator: initiator, Responder: responder, ID: tid}\n	c.progressCache.setDataLimit(chid, 0)\n	err := c.stateMachines.Begin(",
  "C18.3", "a refused duplicate creation resets the existing channel's in-memory limit", "seeded/C18r2b")
m("C02", "terminated-restart-refires-final-event", IMPL,
  "	if channels.IsChannelTerminated(channel.Status()) {\n		return nil\n	}",
  "	if channels.IsChannelTerminated(channel.Status()) {\n		m.notifier(datatransfer.Event{Code: datatransfer.CleanupComplete, Timestamp: time.Now()}, channel)\n		return nil\n	}",
  "C02.4", "restarting a terminated channel emits an event", "seeded/C02r2b")
m("C02", "completed-not-absorbing-in-fsm", CH,
  "		FinalityStates:  ChannelFinalityStates,",
  "		FinalityStates:  []fsm.StateKey{datatransfer.Cancelled, datatransfer.Failed},",
  "C02.1", "the state machine keeps accepting events for Completed channels", "seeded/C02r2a")

# ---------------- round-3 seeded regressions
m("C03", "voucher-result-pause-bit-from-requirement", IMPL,
  "		updateResponse, err = message.CompleteResponse(channelID.ID, chst.Status().IsAccepted(), chst.ResponderPaused(), &voucherResult)",
  "		updateResponse, err = message.CompleteResponse(channelID.ID, chst.Status().IsAccepted(), chst.RequiresFinalization(), &voucherResult)",
  "C03.6", "a finalizing responder that is still paused sends an un-paused Complete", "seeded/C03r3a")
m("C15", "write-deadline-max-of-bounds", NET,
  "	if dl, ok := ctx.Deadline(); ok {\n		deadline = dl\n	}",
  "	if dl, ok := ctx.Deadline(); ok && dl.After(deadline) {\n		deadline = dl\n	}",
  "C15.2", "a send to a stalled peer outlives the caller's deadline", "seeded/C15r3b")
m("C16", "cleanup-without-channel-lock", GS,
  "func (c *dtChannel) cleanup() {\n	c.lk.Lock()\n	defer c.lk.Unlock()\n",
  "func (c *dtChannel) cleanup() {\n",
  "C16.3", "a request hook overtaken by cleanup re-adds a mapping for a channel that is gone", "seeded/C16r3a")
m("C04", "rejected-request-recorded-on-channel", GS,
  "	// If we need to send a response, add the response message as an extension\n	if responseMessage != nil {",
  "	ch.gsDataRequestRcvd(request.ID(), hookActions)\n	// If we need to send a response, add the response message as an extension\n	if responseMessage != nil {",
  "C04.9", "a rejected graphsync request becomes the channel's current request", "seeded/C16r3b")
m("C07", "non-unique-report-lowers-mark", CH,
  "	// if this is not a unique block, no data progress is made, return\n	if !unique {\n		return\n	}",
  "	// if this is not a unique block, no data progress is made, return\n	if !unique {\n		err = c.blockIndexCache.set(evt, chid, index, readFromOriginal)\n		return\n	}",
  "C07.3", "a non-unique report lowers the cached high-water mark", "seeded/C07r3a",
  more=[("type progressState struct {", "func (bic *blockIndexCache) set(evt datatransfer.EventCode, chid datatransfer.ChannelID, newIndex int64, readFromOriginal readIndexFn) error {\n	value, err := bic.getValue(evt, chid, readFromOriginal)\n	if err != nil {\n		return err\n	}\n	atomic.StoreInt64(value, newIndex)\n	return nil\n}\n\ntype progressState struct {", CA)])
m("C17", "unsubscribe-asynchronous", IMPL,
  "	return datatransfer.Unsubscribe(m.pubSub.Subscribe(subscriber))",
  "	unsub := m.pubSub.Subscribe(subscriber)\n	return func() { go unsub() }",
  "C17.2", "a subscriber is still called after its unsubscribe returned", "seeded/C17r3a")

# ---------------- neutral variants: behaviour-preserving edits that must NOT be reported
def n(props, id, file, find, replace, why, more=None, all=False):
    for p in props:
        m(p, "neutral-" + id, file, find, replace, "", why, "neutral", more, all)

n(["C01", "C03"], "rename-completeErr", EV, "completeErr", "cerr", "parameter renamed", all=True)
n(["C01", "C03"], "finalization-branch-swapped", EV,
  "	if chst.RequiresFinalization() {\n		return m.channels.BeginFinalizing(chid)\n	}\n	return m.channels.Complete(chid)",
  "	if !chst.RequiresFinalization() {\n		return m.channels.Complete(chid)\n	}\n	return m.channels.BeginFinalizing(chid)",
  "condition inverted with branches swapped")
n(["C03", "C09", "C11", "C02"], "frommany-split", FSM,
  "		FromMany(datatransfer.Ongoing, datatransfer.Requested, datatransfer.Queued, datatransfer.AwaitingAcceptance).ToJustRecord().\n		Action(func(chst *internal.ChannelState) error {\n			chst.InitiatorPaused = true",
  "		FromMany(datatransfer.Requested, datatransfer.Ongoing).ToJustRecord().\n		From(datatransfer.AwaitingAcceptance).ToJustRecord().\n		From(datatransfer.Queued).ToJustRecord().\n		Action(func(chst *internal.ChannelState) error {\n			chst.InitiatorPaused = true",
  "FromMany split and reordered")
n(["C04"], "requestError-as-switch", RR,
  "	if resultErr != nil {\n		return resultErr\n	}\n	if !result.Accepted {\n		return datatransfer.ErrRejected\n	}\n	if stayPaused {\n		return datatransfer.ErrPause\n	}\n	return nil",
  "	switch {\n	case resultErr != nil:\n		return resultErr\n	case !result.Accepted:\n		return datatransfer.ErrRejected\n	case stayPaused:\n		return datatransfer.ErrPause\n	default:\n		return nil\n	}",
  "if-chain rewritten as switch")
n(["C04", "C18"], "accept-guard-split", RR,
  "	if err != nil || !result.Accepted {\n		return result, err\n	}\n\n	// create the channel",
  "	if err != nil {\n		return result, err\n	}\n	if !result.Accepted {\n		log.Debugf(\"request %s rejected\", chid)\n		return result, nil\n	}\n\n	// create the channel",
  "disjunctive guard split into two returns (err is nil on the second)")
n(["C05", "C02"], "restart-checks-reordered", RS,
  "	// channel initator should be the sender peer\n	if channel.ChannelID().Initiator != otherPeer {\n		return errors.New(\"other peer is not the initiator of the channel\")\n	}\n\n	// channel and request baseCid should match\n	if req.BaseCid() != channel.BaseCID() {\n		return errors.New(\"base cid does not match\")\n	}\n",
  "	// channel and request baseCid should match\n	if req.BaseCid() != channel.BaseCID() {\n		return errors.New(\"base cid does not match\")\n	}\n\n	// channel initator should be the sender peer\n	if otherPeer != channel.ChannelID().Initiator {\n		return errors.New(\"other peer is not the initiator of the channel\")\n	}\n",
  "independent checks reordered, operands swapped")
n(["C08"], "leave-paused-early-return", MG,
  "	return vr.DataLimit != 0 && limitFactor >= vr.DataLimit",
  "	if vr.DataLimit == 0 {\n		return false\n	}\n	return !(limitFactor < vr.DataLimit)",
  "conjunction rewritten as early return and negated comparison")
n(["C07", "C20"], "cas-loop-negated-compare", CA,
  "		if newIndex <= currentIndex {\n			return false, nil\n		}",
  "		if !(newIndex > currentIndex) {\n			return false, nil\n		}",
  "comparison negated")
n(["C09", "C11"], "cancel-message-branches-swapped", UT,
  "func (m *manager) cancelMessage(chid datatransfer.ChannelID) datatransfer.Message {\n	if chid.Initiator == m.peerID {\n		return message.CancelRequest(chid.ID)\n	}\n	return message.CancelResponse(chid.ID)",
  "func (m *manager) cancelMessage(chid datatransfer.ChannelID) datatransfer.Message {\n	if chid.Initiator != m.peerID {\n		return message.CancelResponse(chid.ID)\n	}\n	return message.CancelRequest(chid.ID)",
  "condition inverted with branches swapped")
n(["C14", "C20"], "rename-restartCount", CM, "restartCount", "attempt", "local and parameter renamed", all=True)
n(["C15"], "cap-compare-negated", NET,
  "		if nAttempts >= impl.maxStreamOpenAttempts {",
  "		if !(nAttempts < impl.maxStreamOpenAttempts) {",
  "comparison negated")
n(["C07", "C16", "C01"], "onwire-local", GS,
  "	if block.BlockSizeOnWire() == 0 {\n		return\n	}\n\n	chid, ok := t.requestIDToChannelID.load(request.ID())\n	if !ok {\n		return\n	}\n\n	if err := t.events.OnDataSent",
  "	if onWire := block.BlockSizeOnWire(); onWire == 0 {\n		return\n	}\n\n	chid, found := t.requestIDToChannelID.load(request.ID())\n	if !found {\n		return\n	}\n\n	if err := t.events.OnDataSent",
  "local introduced, ok renamed")
n(["C19", "C06"], "ispull-operands-swapped", CS,
  "	return c.ic.Initiator == c.ic.Recipient",
  "	return c.ic.Recipient == c.ic.Initiator",
  "operands of == swapped")
n(["C03", "C11", "C02", "C09"], "fsm-named-action-and-list-var", FSM,
  "	fsm.Event(datatransfer.PauseInitiator).\n		FromMany(datatransfer.Ongoing, datatransfer.Requested, datatransfer.Queued, datatransfer.AwaitingAcceptance).ToJustRecord().\n		Action(func(chst *internal.ChannelState) error {\n			chst.InitiatorPaused = true\n			chst.AddLog(\"\")\n			return nil\n		}),",
  "	fsm.Event(datatransfer.PauseInitiator).\n		FromMany(pausableStates...).ToJustRecord().\n		Action(markInitiatorPaused(true)),",
  "FromMany list hoisted into a variable, action made by a factory called with a constant",
  more=[("	// Remote peer has accepted the Open channel request\n	fsm.Event(datatransfer.Accept).\n		From(datatransfer.Requested).To(datatransfer.Queued).\n		From(datatransfer.AwaitingAcceptance).To(datatransfer.Ongoing).\n		Action(func(chst *internal.ChannelState) error {\n			chst.AddLog(\"\")\n			return nil\n		}),",
         "	// Remote peer has accepted the Open channel request\n	fsm.Event(datatransfer.Accept).\n		From(datatransfer.Requested).To(datatransfer.Queued).\n		From(datatransfer.AwaitingAcceptance).To(datatransfer.Ongoing).\n		Action(recordOnly),"),
        ("// ChannelEvents describe the events taht can", "var pausableStates = []fsm.StateKey{datatransfer.Ongoing, datatransfer.Requested, datatransfer.Queued, datatransfer.AwaitingAcceptance}\n\nfunc recordOnly(chst *internal.ChannelState) error {\n	chst.AddLog(\"\")\n	return nil\n}\n\nfunc markInitiatorPaused(paused bool) func(*internal.ChannelState) error {\n	return func(chst *internal.ChannelState) error {\n		chst.InitiatorPaused = paused\n		chst.AddLog(\"\")\n		return nil\n	}\n}\n\n// ChannelEvents describe the events taht can")])
m("C11", "factory-action-wrong-constant", FSM,
  "	fsm.Event(datatransfer.PauseInitiator).\n		FromMany(datatransfer.Ongoing, datatransfer.Requested, datatransfer.Queued, datatransfer.AwaitingAcceptance).ToJustRecord().\n		Action(func(chst *internal.ChannelState) error {\n			chst.InitiatorPaused = true\n			chst.AddLog(\"\")\n			return nil\n		}),",
  "	fsm.Event(datatransfer.PauseInitiator).\n		FromMany(datatransfer.Ongoing, datatransfer.Requested, datatransfer.Queued, datatransfer.AwaitingAcceptance).ToJustRecord().\n		Action(markInitiatorPaused(false)),",
  "C11.1", "pause event clears the flag (through a factory-made action)",
  more=[("// ChannelEvents describe the events taht can", "func markInitiatorPaused(paused bool) func(*internal.ChannelState) error {\n	return func(chst *internal.ChannelState) error {\n		chst.InitiatorPaused = paused\n		chst.AddLog(\"\")\n		return nil\n	}\n}\n\n// ChannelEvents describe the events taht can")])
n(["C10"], "restart-ext-helper-inlined", GS,
  "	restartExts, err := t.getRestartExtension(ctx, dataSender, channel)\n	if err != nil {\n		return err\n	}\n	exts = append(exts, restartExts...)\n",
  "	if channel != nil {\n		restartExts, err := getDoNotSendFirstBlocksExtension(channel)\n		if err != nil {\n			return err\n		}\n		exts = append(exts, restartExts...)\n	}\n",
  "helper inlined into its caller",
  more=[("func (t *Transport) getRestartExtension(ctx context.Context, p peer.ID, channel datatransfer.ChannelState) ([]graphsync.ExtensionData, error) {\n	if channel == nil {\n		return nil, nil\n	}\n	return getDoNotSendFirstBlocksExtension(channel)\n}\n", "")])
n(["C10", "C18"], "restart-locals-inlined", RS,
  "	req, err := message.NewRequest(chid.ID, true, true, &voucher, baseCid, selector)",
  "	req, err := message.NewRequest(channel.ChannelID().ID, true, true, &voucher, channel.BaseCID(), selector)",
  "locals inlined")
n(["C12", "C04"], "accepted-via-local", MSG,
  "		RequestAccepted:       validationErr == nil && validationResult.Accepted,",
  "		RequestAccepted:       validationResult.Accepted && validationErr == nil,",
  "conjuncts swapped")
n(["C13", "C02", "C19"], "migration-status-switch", MIG,
  "	if newStatus == datatransfer.ResponderPaused || newStatus == datatransfer.InitiatorPaused || newStatus == datatransfer.BothPaused {\n		newStatus = datatransfer.Ongoing\n	}",
  "	switch newStatus {\n	case datatransfer.BothPaused, datatransfer.InitiatorPaused, datatransfer.ResponderPaused:\n		newStatus = datatransfer.Ongoing\n	}",
  "if rewritten as switch, order changed")
n(["C17"], "subscriber-key-local", "channelsubscriptions/channelsubscriptions.go",
  "	if channels.IsChannelTerminated(state.Status()) {\n		cs.subscriptionsLk.Lock()\n		delete(cs.subscriptions, state.ChannelID())\n		cs.subscriptionsLk.Unlock()\n	}",
  "	if st := state.Status(); channels.IsChannelTerminated(st) {\n		cs.subscriptionsLk.Lock()\n		delete(cs.subscriptions, state.ChannelID())\n		cs.subscriptionsLk.Unlock()\n	}",
  "status read into a local")

n(["C01", "C03"], "extract-responder-completion", EV,
  "	// otherwise, process as responder\n	log.Infow(\"received OnChannelCompleted, will send completion message to initiator\", \"chid\", chid)\n",
  "	// otherwise, process as responder\n	return m.completeAsResponder(chid, chst)\n}\n\nfunc (m *manager) completeAsResponder(chid datatransfer.ChannelID, chst datatransfer.ChannelState) error {\n	log.Infow(\"received OnChannelCompleted, will send completion message to initiator\", \"chid\", chid)\n",
  "responder half of OnChannelCompleted extracted into a helper")
n(["C04", "C18"], "extract-channel-creation", RR,
  "	// create the channel\n	var dataSender, dataReceiver peer.ID",
  "	return m.createAcceptedChannel(chid, incoming, result, stor, voucher)\n}\n\nfunc (m *manager) createAcceptedChannel(chid datatransfer.ChannelID, incoming datatransfer.Request, result datatransfer.ValidationResult, stor datamodel.Node, voucher datatransfer.TypedVoucher) (datatransfer.ValidationResult, error) {\n	var err error\n	// create the channel\n	var dataSender, dataReceiver peer.ID",
  "channel creation half of acceptRequest extracted into a helper")

by = collections.defaultdict(list)
for x in M:
    p = x.pop("prop")
    by[p].append(x)
out = os.path.join(os.path.dirname(os.path.dirname(os.path.abspath(__file__))), "checker", "mutants")
os.makedirs(out, exist_ok=True)
for p, l in by.items():
    ids = [x["id"] for x in l]
    assert len(ids) == len(set(ids)), p
    json.dump(l, open(os.path.join(out, p + ".json"), "w"), indent=1)
print({p: len(l) for p, l in sorted(by.items())})
