#!/bin/bash
# run_probes.sh <dir with r*.diff> — applies each behaviour-preserving refactoring to /repo,
# runs every claimed quick check, prints which checks raise an alarm (exit 1) or get stuck (exit 2), undoes it.
cd /verif; mkdir -p /tmp/seedrun-verif; cp known_findings.json /tmp/seedrun-verif/
PROPS=$(python3 -c "import json;print(' '.join(c['property_id'] for c in json.load(open('MANIFEST.json'))['checks']))")
for D in "$@"; do
 for P in $(realpath $D)/r*.diff; do
  git -C /repo diff --quiet || { echo "/repo dirty"; exit 2; }
  git -C /repo apply $P 2>/dev/null || { echo "$P: does not apply"; continue; }
  AL=""; ST=""
  for pr in $PROPS; do
    out=$(bin/dtcheck -property $pr -tier quick -verif /tmp/seedrun-verif 2>&1); rc=$?
    if [ $rc -eq 1 ]; then AL="$AL $pr:[$(echo "$out" | grep -oE '\[C[0-9]+\.[0-9a-z]+ [^]]{0,80}' | head -3 | tr '\n' ';')]"; elif [ $rc -ne 0 ]; then ST="$ST $pr:[$(echo "$out" | grep -E 'UNDECIDED|CHECKER-ERROR' | head -2 | cut -c1-160 | tr '\n' ';')]"; fi
  done
  git -C /repo checkout -- . ; git -C /repo clean -fdq
  echo "$(basename $(dirname $P))/$(basename $P) ALARM:[$AL ] STUCK:[$ST ]"
 done
done
