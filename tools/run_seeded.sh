#!/bin/bash
# run_seeded.sh <id>... — applies each confirmed seeded change to /repo, runs every claimed
# quick check, records which properties report a VIOLATION, and undoes the change.
cd /verif
mkdir -p /tmp/seedrun-verif; cp known_findings.json /tmp/seedrun-verif/
PROPS=$(python3 -c "import json;print(' '.join(c['property_id'] for c in json.load(open('MANIFEST.json'))['checks']))")
for ID in "$@"; do
  P=/verif/seeded/$ID/patch.diff
  [ -f $P ] || { echo "$ID: no patch"; continue; }
  git -C /repo diff --quiet || { echo "/repo is dirty, refusing"; exit 2; }
  git -C /repo apply $P || { echo "$ID: patch does not apply"; continue; }
  RES=$(for pr in $PROPS; do echo $pr; done | xargs -P 6 -I{} bash -c 'out=$(/verif/bin/dtcheck -property {} -tier quick -verif /tmp/seedrun-verif 2>&1); rc=$?; if echo "$out" | grep -q "^VIOLATION"; then echo "HIT {}:$(echo "$out" | grep -oE "\[C[0-9]+\.[0-9a-z]+" | sort -u | tr -d "[" | tr "\n" ",")"; elif [ $rc -ne 0 ]; then echo "STUCK {}"; fi' | sort)
  HIT=$(echo "$RES" | grep '^HIT ' | cut -d' ' -f2 | tr '\n' ' '); STUCK=$(echo "$RES" | grep '^STUCK ' | cut -d' ' -f2 | tr '\n' ' ')
  git -C /repo apply -R $P || git -C /repo checkout -- .
  echo "$ID detected_by:[$HIT ] stuck:[$STUCK ]"
  python3 - "$ID" "$HIT" "$STUCK" <<'PY'
import json,sys
id,hit,stuck=sys.argv[1:4]
json.dump({"id":id,"detected_by":hit.split(),"checker_stuck":stuck.split()},open(f"/verif/seeded/{id}/detect.json","w"),indent=1)
PY
done
rm -rf /tmp/seedrun-verif
