#!/usr/bin/env python3
import json, glob, sys, os
import jsonschema
root = os.path.dirname(os.path.dirname(os.path.abspath(__file__)))
jsonschema.validate(json.load(open(root+'/MANIFEST.json')), json.load(open('/root/.vp/MANIFEST.schema.json')))
es = json.load(open('/root/.vp/EVIDENCE.schema.json'))
n = 0
for f in sorted(glob.glob(root+'/evidence/C*.json')):
    jsonschema.validate(json.load(open(f)), es); n += 1
print('MANIFEST valid;', n, 'evidence files valid')
