#!/bin/bash
# try_seed.sh <seeded-id|diff-file>... — applies the change in a scratch worktree of /repo (never /repo itself),
# runs every claimed quick check against that worktree, prints which checks report a violation, removes the worktree.
cd /verif; mkdir -p /tmp/seedrun-verif; cp known_findings.json /tmp/seedrun-verif/
PROPS=$(python3 -c "import json;print(' '.join(c['property_id'] for c in json.load(open('MANIFEST.json'))['checks']))")
for ID in "$@"; do
  P=$ID; [ -f "$P" ] || P=/verif/seeded/$ID/patch.diff
  W=/tmp/ts-$(basename $ID .diff)-$$
  git -C /repo worktree add -q --detach $W HEAD || continue
  if ! git -C $W apply $(realpath $P) 2>/dev/null; then echo "$ID: does not apply"; git -C /repo worktree remove --force $W; continue; fi
  export W
  RES=$(for pr in $PROPS; do echo $pr; done | xargs -P 6 -I{} bash -c 'out=$(${DTCHECK:-/verif/bin/dtcheck} -property {} -tier quick -repo $W -verif /tmp/seedrun-verif 2>&1); rc=$?; if [ $rc -eq 1 ]; then echo "{}:VIOL[$(echo "$out" | grep -oE "\[C[0-9]+\.[0-9a-z]+[^]]{0,70}" | head -2 | tr "\n" ";")]"; elif [ $rc -ne 0 ]; then echo "{}:STUCK[$(echo "$out" | grep -E "UNDECIDED|CHECKER" | head -1 | cut -c1-140)]"; fi' | sort | tr '\n' ' ')
  echo "$ID => ${RES:-MISSED}"
  git -C /repo worktree remove --force $W
done
git -C /repo worktree prune
