#!/usr/bin/env python3
"""Regenerates /verif/MANIFEST.json from the table in tools/claims.json."""
import json, os, sys
here = os.path.dirname(os.path.abspath(__file__))
root = os.path.dirname(here)
claims = json.load(open(os.path.join(here, "claims.json")))
props = [json.loads(l)["id"] for l in open(os.path.join(root, "properties.jsonl"))]
checks, na = [], []
for pid in props:
    c = claims["claimed"].get(pid)
    if c is None:
        na.append({"property_id": pid, "reason": claims["not_applicable"].get(pid, "no sound static rule built for this property yet")})
        continue
    checks.append({
        "property_id": pid,
        "quick_cmd": f"bin/dtcheck -property {pid} -tier quick",
        "thorough_cmd": f"bin/dtcheck -property {pid} -tier thorough",
        "evidence_file": f"evidence/{pid}.json",
        "replay_cmd_template": f"bin/dtcheck -property {pid} -tier quick",
        "engine": "dtcheck",
        "level_claimed": {"category": "other", "text": c["text"], "design_ref": c.get("design_ref", "DESIGN.md §5 " + pid)},
        "level_note": c["note"],
        "technique": c["technique"],
    })
m = {
    "version": 1,
    "setup_cmd": "./build.sh",
    "hooks": {
        "guard": "verif",
        "enable": "no hooks are needed: the checker reads /repo's source; nothing in /repo is guarded by the tag",
        "baseline_off_cmd": "cd /repo && go test -vet=off -count=1 -timeout 25m ./...",
        "source_commits": [],
        "add_only": True,
    },
    "engines": [{
        "name": "dtcheck",
        "path": "checker/",
        "serves_properties": [c["property_id"] for c in checks],
        "kind_free_text": "repository-specific static analyser (go/packages + go/types + go/ssa, x/tools v0.29.0): FSM table extraction from the syntax tree, dominance guard facts, path enumeration with atom-consistent pruning, value descriptors, who-may-call tables, lock-set/lock-order analysis, codec/schema agreement, no-crash rules",
    }],
    "checks": checks,
    "not_applicable": na,
    "notes": claims["notes"],
}
json.dump(m, open(os.path.join(root, "MANIFEST.json"), "w"), indent=1)
print("claimed", len(checks), "not_applicable", len(na))
