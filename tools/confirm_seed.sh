#!/bin/bash
# confirm_seed.sh <srcdir> <id>  — confirms a seeded change in a scratch worktree:
#   suite passes with the change; demo fails with it; demo passes without it.
# Writes /verif/seeded/<id>/{patch.diff,demo/,confirm.json,logs}. Removes the worktree afterwards.
set -u
SRC=$1; ID=$2
OUT=/verif/seeded/$ID; WT=/tmp/confirm-$ID
export GOFLAGS=-mod=mod GOPROXY=off
mkdir -p $OUT/demo
cp $SRC/patch.diff $OUT/patch.diff
git -C /repo worktree remove --force $WT 2>/dev/null; rm -rf $WT
git -C /repo worktree add -q --detach $WT HEAD || exit 2
cd $WT
dest_of() { # demo file -> package dir
  f=$1; rel=${f#$SRC/demo/}; d=$(dirname "$rel")
  if [ "$d" != "." ]; then echo "$d"; return; fi
  pk=$(grep -m1 '^package ' "$f" | awk '{print $2}'); pk=${pk%_test}
  case $pk in
    channels) echo channels;; impl) echo impl;; graphsync) echo transport/graphsync;; network) echo network;;
    channelmonitor) echo channelmonitor;; itest) echo itest;; message1_1) echo message/message1_1prime;;
    migrations) echo channels/internal/migrations;; datatransfer) echo .;; channelsubscriptions) echo channelsubscriptions;;
    registry) echo registry;; tracing) echo tracing;; extension) echo transport/graphsync/extension;; transportoptions) echo transportoptions;;
    internal) echo channels/internal;; *) echo UNKNOWN;;
  esac
}
git apply $OUT/patch.diff || { echo '{"error":"patch does not apply"}' > $OUT/confirm.json; cd /; git -C /repo worktree remove --force $WT; exit 1; }
go build ./... > $OUT/build.log 2>&1; BUILD=$?
go test -vet=off -count=1 -timeout 8m ./... > $OUT/suite_with_change.log 2>&1; SUITE=$?
for try in 1 2 3; do # retry failing packages (itest has timing flakes / rare hangs under load, also on the unchanged tree)
  [ $SUITE -eq 0 ] && break
  LOG=$OUT/suite_with_change.log; [ $try -gt 1 ] && LOG=$OUT/suite_retry$((try-1)).log
  PK=$(grep -E '^FAIL\s' $LOG | awk '{print $2}' | grep / | sort -u | tr '\n' ' ')
  [ -z "$PK" ] && break
  go test -vet=off -count=1 -timeout 8m $PK > $OUT/suite_retry$try.log 2>&1; SUITE=$?
done
PKGS=""; TESTS=""
for f in $(find $SRC/demo -type f -name '*.go'); do
  d=$(dest_of $f); mkdir -p $d; cp $f $d/; rel=${f#$SRC/demo/}; mkdir -p $OUT/demo/$(dirname $rel); cp $f $OUT/demo/$rel
  echo "$rel -> $d/" >> $OUT/demo/DESTINATIONS.txt
  PKGS="$PKGS ./$d/"
  for t in $(grep -oE '^func (Test[A-Za-z0-9_]+)' $f | awk '{print $2}'); do TESTS="$TESTS|$t"; done
done
PKGS=$(echo $PKGS | tr ' ' '\n' | sort -u | tr '\n' ' '); TESTS=${TESTS#|}
DFLAGS=""; [ -f $SRC/demo_flags ] && DFLAGS=$(cat $SRC/demo_flags) && cp $SRC/demo_flags $OUT/demo_flags
go test $DFLAGS -vet=off -count=1 -timeout 10m -run "^($TESTS)\$" $PKGS > $OUT/demo_with_change.log 2>&1; DW=$?
git apply -R $OUT/patch.diff
go test $DFLAGS -vet=off -count=1 -timeout 10m -run "^($TESTS)\$" $PKGS > $OUT/demo_without_change.log 2>&1; DWO=$?
cat > $OUT/confirm.json <<J
{"id":"$ID","repo_head":"$(git -C /repo rev-parse --short HEAD)","build_with_change":$BUILD,"suite_with_change_exit":$SUITE,"demo_with_change_exit":$DW,"demo_without_change_exit":$DWO,"demo_packages":"$PKGS","demo_tests":"$TESTS",
 "confirmed": $( [ $BUILD -eq 0 ] && [ $SUITE -eq 0 ] && [ $DW -ne 0 ] && [ $DWO -eq 0 ] && echo true || echo false )}
J
cd /; git -C /repo worktree remove --force $WT; rm -rf $WT
cat $OUT/confirm.json
