#!/usr/bin/env python3
"""Summarises a log of tools/try_seed.sh runs over probes/ into a markdown table."""
import re,sys
rows=[]
for line in open(sys.argv[1]):
    m=re.match(r'.*/probes/(R\d)/(r\d)\.diff => (.*)$', line.strip())
    if not m: continue
    R,r,rest=m.groups()
    al=sorted(set(re.findall(r'(C\d\d):VIOL', rest)))
    st=sorted(set(re.findall(r'(C\d\d):STUCK', rest)))
    rules=sorted(set(re.findall(r'\[(C\d\d\.\d+)', rest)))
    rows.append((R,r,al,st,rules))
q=sum(1 for x in rows if not x[2] and not x[3]); s=sum(1 for x in rows if not x[2] and x[3]); a=sum(1 for x in rows if x[2])
print(f"{len(rows)} probes: {q} quiet, {s} undecided only (exit 2), {a} with a false alarm (exit 1)\n")
print("| probe | false alarm (exit 1) | undecided (exit 2) | rules involved |"); print("|---|---|---|---|")
for R,r,al,st,rules in rows:
    if al or st:
        print(f"| {R}/{r} | {' '.join(al) or '–'} | {' '.join(st) or '–'} | {' '.join(rules)} |")
